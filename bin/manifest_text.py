ENGINES = [
 {'name': 'e2_seg', 'path': 'src/engines/e2_seg.c', 'serves_properties': ['C05', 'C07', 'C09', 'C10', 'C08', 'C19', 'C20'],
  'kind_free_text': 'segmentation enumerator over stream objects (multi-hash, stitched murmur, GCM streaming) and explicit-state search over (position, max_len) for the rolling hash, all on the real code'},
 {'name': 'e3_aes', 'path': 'src/engines/e3_aes.c', 'serves_properties': ['C02', 'C03', 'C04', 'C08', 'C14', 'C19', 'C20'],
  'kind_free_text': 'exhaustive shape-grid enumeration over every AES family symbol of the freshly built library, with guard-page, canary, trampoline and secret-scan monitors'},
]
_NB = 'check not built yet in this round (planned, see DESIGN.md section 9); not claimed until built and shown red on a mutant'
NOT_APPLICABLE = {p: _NB for p in ['C%02d' % i for i in range(1, 21)]}
_E3NOTE = 'trusted: own reference implementations (validated by standard KATs and, when libcrypto is present, random cross-checks at setup); host CPU executes every family; values are seeded, shapes are exhaustive within the stated bounds'
TEXT = {
 'C02': {'engine': 'e3_aes', 'design_ref': 'DESIGN.md 5.2',
  'technique': 'bounded exhaustive enumeration of call shapes on the real code against a reference implementation',
  'level_text': 'Every (length, AAD length, tag length, alignment, in-place) shape up to the stated bounds is executed on every GCM family symbol (regular and non-temporal, enc and dec, both key sizes) and compared with an independent SP 800-38D reference; nothing inside the bound is sampled. Shapes, not key/data values, are what the hand-unrolled loops and tails branch on.',
  'level_note': _E3NOTE},
 'C03': {'engine': 'e3_aes', 'design_ref': 'DESIGN.md 5.3',
  'technique': 'bounded exhaustive enumeration of call shapes on the real code against a reference implementation',
  'level_text': 'Every length 0..1100 (every unrolled tail with and without ciphertext stealing) plus sector-size windows, for each of the three families, raw and pre-expanded keys, carry-provoking tweaks and all data/key/tweak alignments is executed and compared with an IEEE 1619 reference; lengths below 16 must leave buffers untouched.',
  'level_note': _E3NOTE},
 'C04': {'engine': 'e3_aes', 'design_ref': 'DESIGN.md 5.4',
  'technique': 'bounded exhaustive enumeration of call shapes on the real code against a reference implementation',
  'level_text': 'Both expanded schedules of every key-expansion family are compared word for word with FIPS-197 for structured and seeded keys; every CBC block count that reaches a distinct loop/tail combination is run on every encrypt/decrypt family, in place and disjoint, at all data alignments, against SP 800-38A.',
  'level_note': _E3NOTE},
 'C05': {'engine': 'e2_seg', 'design_ref': 'DESIGN.md 5.5',
  'technique': 'bounded exhaustive enumeration of update segmentations on the real code against a reference implementation',
  'level_text': 'Every way of cutting a stream into two (and a structured set of three) update calls within the bound is executed on every block-function family of mh_sha1 and mh_sha256 and compared with an independent implementation of the multi-hash definition; the carry logic branches only on (partial length, new length) which the grid covers completely.',
  'level_note': _E3NOTE},
 'C10': {'engine': 'e2_seg', 'design_ref': 'DESIGN.md 5.10',
  'technique': 'bounded exhaustive enumeration of update segmentations on the real code against two reference implementations',
  'level_text': 'As C05 for the stitched function: both outputs are compared with stand-alone references (multi-hash definition, MurmurHash3_x64_128) for every segmentation in the bound, every family and five seeds.',
  'level_note': _E3NOTE},
 'C07': {'engine': 'e2_seg', 'design_ref': 'DESIGN.md 5.7',
  'technique': 'bounded exhaustive enumeration of update segmentations on the real code, differential against the one-shot call',
  'level_text': 'All compositions of short messages into three updates, the full carried-residue x fill grid around block completion and loop entry, and the non-temporal variant under its documented rule are run on all four macro families; output is compared with the one-shot call of the same family after each update and at finalize.',
  'level_note': _E3NOTE},
 'C09': {'engine': 'e2_seg', 'design_ref': 'DESIGN.md 5.9',
  'technique': 'explicit-state model checking of the implementation: all (position, max_len) transitions from canonical states, canonical-state check after each, chained-run conformance',
  'level_text': 'The reachable state of a rolling-hash object over a fixed stream is its position; every transition (every max_len at every position) is executed on the real code for every window size, scan routine and mask class, the result is compared with the definition computed from a pinned copy of the table, and the successor state is checked to be canonical - an inductive argument that covers every partition into any number of run calls.',
  'level_note': _E3NOTE + '; the pinned table copy makes a changed constant a violation'},
}
