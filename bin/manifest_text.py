ENGINES = [
 {'name': 'e3_aes', 'path': 'src/engines/e3_aes.c', 'serves_properties': ['C02', 'C03', 'C04', 'C08', 'C14', 'C19', 'C20'],
  'kind_free_text': 'exhaustive shape-grid enumeration over every AES family symbol of the freshly built library, with guard-page, canary, trampoline and secret-scan monitors'},
]
_NB = 'check not built yet in this round (planned, see DESIGN.md section 9); not claimed until built and shown red on a mutant'
NOT_APPLICABLE = {p: _NB for p in ['C%02d' % i for i in range(1, 21)]}
_E3NOTE = 'trusted: own reference implementations (validated by standard KATs and, when libcrypto is present, random cross-checks at setup); host CPU executes every family; values are seeded, shapes are exhaustive within the stated bounds'
TEXT = {
 'C02': {'engine': 'e3_aes', 'design_ref': 'DESIGN.md 5.2',
  'technique': 'bounded exhaustive enumeration of call shapes on the real code against a reference implementation',
  'level_text': 'Every (length, AAD length, tag length, alignment, in-place) shape up to the stated bounds is executed on every GCM family symbol (regular and non-temporal, enc and dec, both key sizes) and compared with an independent SP 800-38D reference; nothing inside the bound is sampled. Shapes, not key/data values, are what the hand-unrolled loops and tails branch on.',
  'level_note': _E3NOTE},
 'C03': {'engine': 'e3_aes', 'design_ref': 'DESIGN.md 5.3',
  'technique': 'bounded exhaustive enumeration of call shapes on the real code against a reference implementation',
  'level_text': 'Every length 0..1100 (every unrolled tail with and without ciphertext stealing) plus sector-size windows, for each of the three families, raw and pre-expanded keys, carry-provoking tweaks and all data/key/tweak alignments is executed and compared with an IEEE 1619 reference; lengths below 16 must leave buffers untouched.',
  'level_note': _E3NOTE},
 'C04': {'engine': 'e3_aes', 'design_ref': 'DESIGN.md 5.4',
  'technique': 'bounded exhaustive enumeration of call shapes on the real code against a reference implementation',
  'level_text': 'Both expanded schedules of every key-expansion family are compared word for word with FIPS-197 for structured and seeded keys; every CBC block count that reaches a distinct loop/tail combination is run on every encrypt/decrypt family, in place and disjoint, at all data alignments, against SP 800-38A.',
  'level_note': _E3NOTE},
}
