# Per-property plans for bin/check: which engines decide the property, how the work is sharded,
# and how the evidence counters are interpreted.
A_COMMON = [
    "data values (keys, IVs, tweaks, message bytes) come from a seeded generator plus structured patterns; they are not enumerated",
    "family symbols are executed directly on the verification host, which must support the family (skipped families are counted in counters.skipped_family_not_executable_on_host)",
    "the library is rebuilt out of tree from the current working tree with the flags of the baseline build (SAFE_DATA, SAFE_PARAM, HAVE_AS_KNOWS_AVX512)",
]

def e3(what, shards_q=16, shards_t=16):
    return {'engine': 'e3_aes', 'variant': 'V', 'args': [f'--what={what}'], 'shards': {'quick': shards_q, 'thorough': shards_t}}

PLANS = {
 'C02': {
  'level': 'exploration', 'steps': [e3('gcm')], 'eval_stats': ['calls_gcm'], 'distinct_key': 'shape',
  'rule': "exhaustive grid: len in [0,1100] + carry windows around 4096 and 65536, AAD length set, tag in {8,12,16}, data offsets, in-place/disjoint, x {sse,avx_gen2,avx_gen4,vaes_avx512} x {regular,nt} x {enc,dec} x {128,256}; a case is distinct by (entry point, len, aad, tag, placement, offset, in-place); every one is compared with the bit-serial SP 800-38D reference",
  'bound': {'quick': 'len<=1100 + 4096+-20 + 65536+-17; 9 AAD lengths; 2 offsets', 'thorough': 'len<=1100 + 4096+-320 + 65536+-64; 49 AAD lengths; 16 offsets'},
  'deadline': {'quick': 240, 'thorough': 2400}, 'assumptions': A_COMMON,
 },
 'C03': {
  'level': 'exploration', 'steps': [e3('xts')], 'eval_stats': ['calls_xts'], 'distinct_key': 'shape',
  'rule': "exhaustive grid: len in [0,1100] + 4096+-40 (+65536, 65551 thorough) x {128,256} x {enc,dec} x {sse,avx,vaes} x {raw,expanded key (reference and library schedules)} x tweaks {random, all-ones, top-bit} x offsets of data/keys/tweak x in-place/disjoint; compared with IEEE 1619 reference; len<16 must leave the output untouched",
  'bound': {'quick': 'len<=1100, 2 offsets', 'thorough': 'len<=1100, 16 offsets, all 3 tweaks everywhere'},
  'deadline': {'quick': 240, 'thorough': 2400}, 'assumptions': A_COMMON,
 },
 'C04': {
  'level': 'exploration', 'steps': [e3('cbc', 8, 16), e3('keyexp', 4, 8)], 'eval_stats': ['calls_cbc', 'calls_keyexp'], 'distinct_key': 'shape',
  'rule': "key expansion: {128,192,256} x {sse,avx} (+_enc variant) x keys {zero, ones, counting, seeded random} x key/schedule alignments, both schedules compared word for word with FIPS-197 (+InvMixColumns); CBC: len=16N, N in [1,70] + {255,256,257}(+4096) x {x4,x8} enc x {sse,avx,vaes_avx512} dec x key sizes x offsets x in-place/disjoint against SP 800-38A reference",
  'bound': {'quick': '120 keys; N<=70; 3 offsets', 'thorough': '600 keys; N<=70 + 4096; 16 offsets'},
  'deadline': {'quick': 120, 'thorough': 1200}, 'assumptions': A_COMMON,
 },
}
