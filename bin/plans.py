# Per-property plans for bin/check: which engines decide the property, how the work is sharded,
# and how the evidence counters are interpreted.
A_COMMON = [
    "data values (keys, IVs, tweaks, message bytes) come from a seeded generator plus structured patterns; they are not enumerated",
    "family symbols are executed directly on the verification host, which must support the family (skipped families are counted in counters.skipped_family_not_executable_on_host)",
    "the library is rebuilt out of tree from the current working tree with the flags of the baseline build (SAFE_DATA, SAFE_PARAM, HAVE_AS_KNOWS_AVX512)",
]

def e3(what, shards_q=16, shards_t=16):
    return {'engine': 'e3_aes', 'variant': 'V', 'args': [f'--what={what}'], 'shards': {'quick': shards_q, 'thorough': shards_t}}

def e2(what, sq=16, st=16):
    return {'engine': 'e2_seg', 'variant': 'V', 'args': [f'--what={what}'], 'shards': {'quick': sq, 'thorough': st}}

def e1(mode, n, extra=(), tiers=('quick','thorough'), extra_q=(), extra_t=()):
    return {'engine': 'e1_mgr', 'variant': 'V', 'args': [f'--mode={mode}'] + list(extra), 'args_quick': list(extra_q), 'args_thorough': list(extra_t), 'shards': n, 'tiers': tiers}
def e1x(extra=(), extra_q=()):
    # full-depth exploration: in the thorough tier every (instance, policy) is split 8 ways by first deviation
    d = e1('explore', 112, extra, extra_q=extra_q, extra_t=['--nsub=8'])
    d['shards'] = {'quick': 112, 'thorough': 896}
    return d

A_E1 = A_COMMON + [
    "manager state space explored by deviation-bounded search around four driving policies (entire-fill, streaming, flush-after-every-submit, occupancy sweep); segment lengths from {0,1,B-1,B,B+1,2B+3,7B}; K = lanes+2 contexts",
    "visited-state pruning uses a 64-bit hash of the raw byte image of manager + contexts + model counters",
]
PLANS = {
 'C02': {
  'level': 'exploration', 'steps': [e3('gcm')], 'eval_stats': ['calls_gcm'], 'distinct_key': 'shape',
  'rule': "exhaustive grid: len in [0,1100] + carry windows around 4096 and 65536, AAD length set, tag in {8,12,16}, data offsets, in-place/disjoint, x {sse,avx_gen2,avx_gen4,vaes_avx512} x {regular,nt} x {enc,dec} x {128,256}; a case is distinct by (entry point, len, aad, tag, placement, offset, in-place); every one is compared with the bit-serial SP 800-38D reference",
  'bound': {'quick': 'len<=1100 + 4096+-20 + 65536+-17; 12 AAD lengths (0..513); 2 offsets', 'thorough': 'len<=1100 + 4096+-320 + 65536+-64 + six lengths around 2^20; 49 AAD lengths; 16 offsets'},
  'deadline': {'quick': 240, 'thorough': 2400}, 'assumptions': A_COMMON,
 },
 'C03': {
  'level': 'exploration', 'steps': [e3('xts')], 'eval_stats': ['calls_xts'], 'distinct_key': 'shape',
  'rule': "exhaustive grid: len in [0,1100] + 4096+-40 (+65536, 65551 thorough) x {128,256} x {enc,dec} x {sse,avx,vaes} x {raw,expanded key (reference and library schedules)} x tweaks {random, all-ones, top-bit} x offsets of data/keys/tweak x in-place/disjoint; compared with IEEE 1619 reference; len<16 must leave the output untouched",
  'bound': {'quick': 'len<=1100, 2 offsets', 'thorough': 'len<=4056 (every length), 16 offsets, all 3 tweaks everywhere; 2^20+17, 2^24-16, 2^24-1, 2^24 (documented maximum)'},
  'deadline': {'quick': 240, 'thorough': 2400}, 'assumptions': A_COMMON,
 },
 'C04': {
  'level': 'exploration', 'steps': [e3('cbc', 8, 16), e3('keyexp', 4, 8)], 'eval_stats': ['calls_cbc', 'calls_keyexp'], 'distinct_key': 'shape',
  'rule': "key expansion: {128,192,256} x {sse,avx} (+_enc variant) x keys {zero, ones, counting, seeded random} x key/schedule alignments, both schedules compared word for word with FIPS-197 (+InvMixColumns); CBC: len=16N, N in [1,70] + {255,256,257}(+4096) x {x4,x8} enc x {sse,avx,vaes_avx512} dec x key sizes x offsets x in-place/disjoint against SP 800-38A reference",
  'bound': {'quick': '120 keys; N<=70; 3 offsets', 'thorough': '6000 keys; N<=300 + 4096 + 65536; 16 offsets'},
  'deadline': {'quick': 120, 'thorough': 1200}, 'assumptions': A_COMMON,
 },
 'C05': {
  'level': 'exploration', 'steps': [e2('mh1'), e2('mh256')], 'eval_stats': ['streams'], 'distinct_key': 'shape',
  'rule': "all update segmentations (l1,l2[,l3]) of a stream followed by finalize, on every family {base,sse,avx,avx2,avx512} of mh_sha1 and mh_sha256, plus the public dispatched entry points; quick: l1 in [0,1040] x structured l2 set (block boundaries +-1, complements of l1 to 1024/2048) x third piece from {0,1,17,1023,1024,1025}; thorough: l1,l2 in [0,2049]^2; compared with the multi-hash definition computed by an independent reference; length accounting up to the property's 2^32 limit: the running total is advanced by a multiple of 1024 after an update so that the stream ends around 2^29, 2^31 and just below 2^32 at every residue (reference given the same offset), validated in the thorough tier by a genuine 2^29+1024-byte stream per family; distinct = (family entry, piece lengths, offset)",
  'bound': {'quick': 'l1<=1040, ~36 l2 values, 3 l3 values; 6 length offsets x 22 l2', 'thorough': 'l1,l2 in [0,2049]^2 + l3; 15 length offsets; genuine 2^29-byte streams'},
  'deadline': {'quick': 240, 'thorough': 3000}, 'assumptions': A_COMMON + ['real stream lengths stay below 6200 bytes (2^29+1024 in the thorough tier); larger totals are reached by advancing total_length by a multiple of the block size, which is the same state as far as the library uses that field (modulo 1024 and in the final length fields)'],
 },
 'C10': {
  'level': 'exploration', 'steps': [e2('mur')], 'eval_stats': ['streams'], 'distinct_key': 'shape',
  'rule': "as C05 for the stitched mh_sha1+murmur3_x64_128 function on every family, seeds {0,1,2^32-1,2^63,0x0123456789abcdef} rotated over the cases, second pieces additionally all of [0,40] so that every (total mod 16) x (position in the 1024-byte block) carry of the murmur tail occurs; both outputs compared with stand-alone references; totals around 2^29, 2^31 and just below 2^32 by length offset as in C05 (the murmur finalisation mixes the total length)",
  'bound': {'quick': 'l1<=1040, ~77 l2 values; 6 length offsets', 'thorough': 'l1,l2 in [0,2049]^2; 15 length offsets; genuine 2^29-byte streams'},
  'deadline': {'quick': 240, 'thorough': 3000}, 'assumptions': A_COMMON,
 },
 'C07': {
  'level': 'exploration', 'steps': [e2('gcms')], 'eval_stats': ['streams'], 'distinct_key': 'shape',
  'rule': "init/update*/finalize on every GCM family x {128,256} x {enc,dec}: (a) all compositions of len<=64 (96 thorough) into 3 pieces incl. empty ones, (b) carried residue r in [0,15] x fill amounts {16-r-1,16-r,16-r+1,+15..+769} x third piece, (c) first piece 0..48 followed by loop-boundary pieces {127..2048}, (d) non-temporal update under its documented rule (64-byte aligned, non-final pieces multiples of 64); output compared with the same family's one-shot call after every update (prefix) and after finalize (tag)",
  'bound': {'quick': 'sum<=64 for compositions', 'thorough': 'sum<=144 for 3 pieces; 4 pieces with l1,l2,l3<=33; pairs of loop-boundary pieces'},
  'deadline': {'quick': 240, 'thorough': 3000}, 'assumptions': A_COMMON,
 },
 'C09': {
  'level': 'model_checking', 'steps': [e2('roll', 16, 16)], 'eval_stats': ['transitions', 'chain_calls', 'mask_gen_calls'], 'distinct_key': 'roll_state',
  'state_stats': [], 'state_distinct': ['roll_state'], 'transition_stats': ['transitions'], 'trace_stats': ['transitions', 'chain_calls'],
  'rule': "explicit-state search on the real isal_rolling_hash2_run: state = stream position p with the canonical (hash, last w bytes) restored, transition = run(max_len m) for every m in [0,N-p]; for w in [1,48] x scan routine {base,_00,_04} (dispatch slot re-pointed) x 11 (mask,trigger) pairs; after every transition (offset, match) must equal the definition from the pinned table and the resulting state must be the canonical state of position p+offset, which by induction covers every partition of the stream into any number of calls; chained runs without state restore validate the canonical-state abstraction against states genuinely reached from reset; plus exhaustive mask_gen sweep",
  'bound': {'quick': 'stream length w+70', 'thorough': 'stream length w+340'},
  'deadline': {'quick': 240, 'thorough': 3000}, 'assumptions': A_COMMON + ['history bytes at index >= w are not part of the canonical state (never read for i < w by construction of the API)'],
 },
 'C06': {
  'level': 'model_checking', 'steps': [e1x(), e1('jobs', 23)],
  'eval_stats': ['transitions'], 'distinct_key': 'abstract_states', 'state_stats': ['states'], 'transition_stats': ['transitions'],
  'rule': "explicit-state search on the real manager and contexts of every algorithm x family (28 instances x 4 policies): a state is the byte image of manager + K contexts (snapshot/restore by memcpy) plus the reference model; every enabled symbol (flush, valid submits FIRST/UPDATE/LAST/ENTIRE with 7 lengths on fresh/idle/completed contexts, 10 kinds of rejected submit) is a deviation from the driving policy; bounds d=0,1,2.. iterated; invariants I1-I6 evaluated after every transition; distinct = abstract (occupancy, status multiset) states reached",
  'bound': {'quick': 'deviations d<=2 for families with <=4 lanes, d<=1 otherwise', 'thorough': 'd<=2 for every instance up to 16 lanes (d<=1 for the 32-lane MD5 AVX-512 manager), 14 segment lengths (instead of 8) for <=4 lanes, rejections also on the youngest in-flight context'},
  'deadline': {'quick': 200, 'thorough': 2700}, 'assumptions': A_E1,
 },
 'C01': {
  'level': 'model_checking', 'steps': [e1x(extra_q=['--d4=1']), e1('seg', 112), e1('jobs', 23)],
  'eval_stats': ['transitions'], 'distinct_key': None, 'state_stats': ['states'], 'transition_stats': ['transitions'],
  'rule': "same state space as C06 (digest of every context handed back complete compared with the standard hash of everything submitted since FIRST, incl. context reuse and mid-stream restart) plus, per family, all segmentations (l1,l2) in [0,2B+1]^2 as FIRST/LAST, FIRST/UPDATE/LAST(0) and ENTIRE under four lane occupancies (alone, 1, lanes-2, lanes-1 long background jobs in flight); digests compared with own FIPS 180-4 / RFC 1321 / GB/T 32905 references",
  'bound': {'quick': 'explore d<=1; seg (l1,l2) in [0,2B+1]^2', 'thorough': 'explore d<=2 up to 16 lanes (d<=1 at 32 lanes) with 14 segment lengths for <=4 lanes; seg additionally a third piece'},
  'deadline': {'quick': 200, 'thorough': 2700}, 'assumptions': A_E1,
 },
 'C11': {
  'level': 'model_checking', 'steps': [e1x(), e1('explore', 112, ['--entry=public'])],
  'eval_stats': ['transitions'], 'distinct_key': 'abstract_states', 'state_stats': ['states'], 'transition_stats': ['transitions'],
  'rule': "same state space as C06 with the rejected submits as ordinary alphabet symbols, so that every explored manager state receives every kind of rejection followed by every continuation in the budget; per rejection: returned pointer, error code (precedence flags > processing > completed), byte image of manager and all other contexts unchanged, rejected context unchanged except its error field; explored twice: on the family symbols and through the public isal_*_ctx_mgr_* wrappers re-pointed to each family, where every valid call must return 0 and every rejection the mapped code",
  'bound': {'quick': 'family level d<=2 (<=4 lanes) / d<=1, public level d<=1', 'thorough': 'family level d<=2 up to 16 lanes (d<=1 at 32 lanes) with 14 segment lengths for <=4 lanes and rejections on two in-flight contexts, public level d<=1'},
  'deadline': {'quick': 200, 'thorough': 2700}, 'assumptions': A_E1,
 },
 'C15': {
  'level': 'exploration', 'steps': [e1('len', 84), e1('big', 5, tiers=('thorough',))],
  'eval_stats': ['streams'], 'distinct_key': 'len_shape',
  'rule': "non-initial-state exploration: after FIRST(m0) came back idle for every residue m0 in [0,B), total_length is advanced by a multiple of the block size so that the running total is delta bytes below T in {2^29, 2^32, 2^32+2^29}; then all (l1,l2) UPDATE/LAST segmentations crossing T; per algorithm x family; digest compared with the reference hash given the same length offset, total_length with the sum",
  'bound': {'quick': '9 delta values per residue, l1 step 3, l2 step 5', 'thorough': 'all delta in [1,2B], all l1, l2'},
  'deadline': {'quick': 200, 'thorough': 2700},
  'assumptions': A_COMMON + ["the teleported state is equivalent to the genuinely reached one because the context layer uses total_length only through total_length mod B and the padding length field; validated in the thorough tier by one genuine 2^32+2^29+79-byte stream per algorithm x family (periodic data through aliased memfd mappings; single submit of 2^32-1 bytes)"],
 },
 'C08': {
  'level': 'fault_enumeration',
  'steps': [e3('gcm'), e3('xts', 8, 16), e3('cbc', 4, 8), e3('keyexp', 2, 4), e2('mh1', 8, 16), e2('mh256', 8, 16), e2('mur', 8, 16), e2('roll', 16, 16), e2('gcms', 16, 16), e2('blocks', 1, 1),
            e1('seg', 112), e1('jobs', 23), e1('explore', 112, ['--d4=1', '--d8=1', '--d16=1'])],
  'eval_stats': ['calls_gcm', 'calls_xts', 'calls_cbc', 'calls_keyexp', 'streams', 'transitions'], 'distinct_key': None,
  'rule': "guard-page fault enumeration: every call of the E3/E2/E1 sweeps is made with each input and output buffer placed end-flush against a PROT_NONE page and, in a second pass, start-flush right after one; inputs (data, AAD, 12-byte IV, tweak, keys, schedules, key data, rolling window) live in read-only mappings, outputs and in/out objects (context, manager, key data at exact sizeof) are surrounded by canary bytes; a fault, a damaged canary or a write to an input is a violation attributed to (entry, object, direction); zero-length calls included wherever 0 is in the documented domain (CBC through the public and legacy entry points bound to each family)",
  'bound': {'quick': 'GCM len<=600+windows, XTS len<=1100, CBC N<=70, mh l1<=1040, rolling w+70, GCM streaming sum<=40, hash (l1,l2) in [0,2B+1]^2 x 4 occupancies + explore d<=1', 'thorough': 'the thorough grids of the functional sweeps'},
  'deadline': {'quick': 240, 'thorough': 2700}, 'assumptions': A_COMMON + ["placements relative to huge-page or 2^32 boundaries are not covered"],
 },
 'C19': {
  'level': 'exploration',
  'steps': [e3('gcm'), e3('xts', 8, 16), e3('cbc', 4, 8), e3('keyexp', 2, 4), e2('mh1', 8, 16), e2('mh256', 8, 16), e2('mur', 8, 16), e2('roll', 16, 16), e2('gcms', 16, 16), e2('blocks', 1, 1),
            e1('seg', 112), e1('jobs', 23), e1('explore', 112, ['--d4=1', '--d8=1', '--d16=1']), e1('explore', 112, ['--entry=public', '--d4=1']),
            {'engine': 'e4_api', 'variant': 'V', 'args': ['--mode=lattice'], 'shards': 8}, {'engine': 'e6_dispatch', 'variant': 'V', 'args': [], 'shards': 16}],
  'eval_stats': ['library_calls'], 'distinct_key': 'functions_called',
  'rule': "every library call of every engine goes through an assembly trampoline that loads sentinels into rbx, rbp, r12-r15, records rsp, MXCSR, x87 CW, clears DF, lays a 256-byte canary zone above the outgoing stack arguments, poisons caller-saved registers/flags, and after return compares all of it bit for bit (MXCSR: control bits only); the calls are those of the functional sweeps (every length class / tail / main loop / lanes full or not / flush with 0..L live lanes / rejected submits), on public, legacy and family entry points, the argument-lattice error/early returns of E4 and all 64 dispatch resolvers (E6, every CPU configuration); distinct = distinct entry points called",
  'bound': {'quick': 'quick grids of E1/E2/E3', 'thorough': 'thorough grids of E1/E2/E3'},
  'deadline': {'quick': 240, 'thorough': 2700}, 'assumptions': A_COMMON + ["internal kernels with private calling conventions (e.g. sha256_mb_x8_avx2, sha1_ni_x2) are not entry points and are excluded"],
 },
 'C14': {
  'level': 'exploration',
  'steps': [e3('gcm'), e3('xts', 8, 16), e3('cbc', 4, 8), e3('keyexp', 2, 4), e2('gcms', 16, 16)],
  'eval_stats': ['secret_scans'], 'distinct_key': 'shape',
  'rule': "every AES entry point (key expansion x {128,192,256} x {sse,avx} incl. _enc; GCM key precompute incl. the public/legacy/internal C wrappers bound to every keyexp x precomp family, init, update, finalize, one-shot x 4 families x {regular,nt}; CBC enc/dec families; XTS x 3 families x raw/expanded) is called through the trampoline on the shapes that reach each exit path (length classes 0 / sub-block / each tail / each main loop); before the call zmm0-31, k0-7 and 64 KiB of dead stack are poisoned, immediately after return they are captured without using the stack and scanned at every byte offset for every 16-byte secret of the call: raw key halves, every encryption and decryption round key, H=E_K(0) in both byte orders, every entry of the hash-key table, E_K2(tweak); keys are random so a match is not a coincidence",
  'bound': {'quick': 'GCM/XTS len<=300 (+2048, 4097), CBC N<=40, 24 keys, GCM streaming sum<=40 (every 7th composition)', 'thorough': 'len<=1100, all compositions'},
  'deadline': {'quick': 240, 'thorough': 2700}, 'assumptions': A_COMMON + ["only state visible to the caller after return is inspected: vector/mask registers and the 64 KiB below the call's stack pointer; general-purpose registers and heap are not part of the property"],
 },
 'C20': {
  'level': 'exploration',
  'steps': [e3('gcm'), e3('xts', 8, 16), e3('cbc', 4, 8), e3('keyexp', 2, 4), e2('mh1', 8, 16), e2('mh256', 8, 16), e2('mur', 8, 16), e2('roll', 16, 16), e2('gcms', 16, 16),
            e1('explore', 112, ['--d4=1', '--d8=1', '--d16=1']), e1('seg', 112)],
  'eval_stats': ['pairs'], 'distinct_key': None,
  'rule': "paired executions (self-composition): every explored case is executed under two environments that agree on the declared inputs and differ in the hidden ones - output-buffer prefill (0x00 / 0xFF), bytes of objects the API has not yet defined (manager and contexts before init/FIRST, GCM context before init, mh/stitched context before init, the unused tail of the rolling-hash history), trampoline poison of rax, r10, r11, unused argument registers, upper halves of 32-bit arguments, zmm0-31, k0-7, arithmetic flags and 64 KiB of dead stack; observables (output bytes, tags, digests, offsets, return values; for managers: which context comes back when, status, error, total length, digest, user data) must be identical; for the manager the second image is driven in lock step through the transitions chosen by the first and makes no pruning decisions",
  'bound': {'quick': 'AES len<=300 (+2048, 4097); mh l1<=1040 (every 4th l2); rolling w+70; GCM streaming sum<=40; manager exploration d<=1; hash segmentations (l1,l2) in [0,2B+1]^2 x 4 occupancies', 'thorough': 'thorough grids'},
  'deadline': {'quick': 240, 'thorough': 2700}, 'assumptions': A_COMMON + ["internal fields are compared only through behaviour (e.g. GCM init stores an undefined xmm2^xmm3 into partial_block_enc_key, which is rewritten before it is read)"],
 },
 'C12': {
  'level': 'model_checking',
  'steps': [dict(e3('gcm', 8, 16), args=['--what=gcm', '--trace-isa']), dict(e3('xts', 4, 8), args=['--what=xts', '--trace-isa']), dict(e3('cbc', 2, 4), args=['--what=cbc', '--trace-isa']), dict(e3('keyexp', 1, 1), args=['--what=keyexp', '--trace-isa']),
            dict(e2('mh1', 2, 2), args=['--what=mh1', '--trace-isa']), dict(e2('mh256', 2, 2), args=['--what=mh256', '--trace-isa']), dict(e2('mur', 2, 2), args=['--what=mur', '--trace-isa']),
            dict(e2('roll', 3, 3), args=['--what=roll', '--trace-isa']), dict(e2('gcms', 16, 16), args=['--what=gcms', '--trace-isa']),
            dict(e1('explore', 28), args=['--mode=explore', '--trace-isa']),
            {'engine': 'e6_dispatch', 'variant': 'V', 'args': [], 'shards': 16, 'phase': 1}],
  'eval_stats': ['transitions'], 'distinct_key': 'bindings', 'state_stats': ['states'], 'transition_stats': ['transitions'], 'trace_stats': ['transitions'],
  'rule': "phase 0 measures, by trap-flag single-stepping of every family function on representative shapes (every loop and tail class), the instruction-set classes each dispatch candidate really executes (raw-byte EVEX/VEX/legacy decoding of executed addresses + objdump mnemonics; unknown mnemonics add no requirement). Phase 1 enumerates all architecturally consistent assignments of the 22 CPUID leaf 1/7 and XCR0 bits the resolvers test (SSE4.1, SSE4.2, OSXSAVE, AVX, Avoton model, AVX2, AVX512 F/DQ/CD/BW/VL, SHA, VBMI2, GFNI, VAES, VPCLMULQDQ, VNNI, BITALG, VPOPCNTDQ, XCR0 SSE/YMM/ZMM) and, for each, runs the real <entry>_dispatch_init of all 64 dispatched entry points under a virtual CPUID/XGETBV (nasm -P pre-include, no source change); oracle: measured classes of the bound target subset of the available classes, one family per shared object, slot points at the start of an implementation, XGETBV never executed with OSXSAVE=0; the virtualisation is bound to reality by requiring identical bindings for the host's values served virtually and by the real instructions",
  'bound': {'quick': 'all consistent configurations (exhaustive); ISA measurement on the reduced trace shape set', 'thorough': 'same'},
  'deadline': {'quick': 400, 'thorough': 2000}, 'exhaustive': True,
  'assumptions': A_COMMON + ["required-ISA sets are measured on executed paths only (under-approximation: never a false alarm)", "AES-NI, PCLMULQDQ, SSSE3, POPCNT, BMI1/2 are not among the bits the ladders test and are outside the property's quantifier", "SSE4.1/4.2 are the documented minimum of the AES entry points, which have no base fallback"],
 },
 'C16': {
  'level': 'exploration',
  'steps': [{'engine': 'e4_api', 'variant': 'V', 'args': ['--mode=lattice'], 'shards': 8}],
  'eval_stats': ['lattice_cases', 'twin_pairs'], 'distinct_key': 'case',
  'rule': "argument-lattice enumeration over the 70 catalogued isal_ entry points (isal_crypto_get_version* take no checked arguments): all 2^k subsets of the k pointer arguments set to NULL x (all scalars valid, then each value of each scalar's enumerated domain in turn: GCM lengths 0/1/17/64/MAX+1, tag lengths 0..40 (valid exactly 8/12/16) + 2^32+16 + 2^64-1, CBC lengths 0..70, rolling window 0..80 (valid 1..48) + 2^31/2^32-1, hash flags 0..40 + every higher single bit, XTS lengths 0..33/2^24-1/2^24 (accepted, compared with the legacy twin)/2^24+1/2^40); expectation from a transcription of the header documentation, three-valued (must-succeed / must-fail / contract-silent); in must-fail cases every non-NULL pointer argument is aimed at a PROT_NONE region so that any dereference before the refusal faults (a submit with invalid flags is refused through its context, which is therefore real: an idle mid-stream context, the manager slots bound to every CPU family in turn, manager and context images compared around the refused call); stateful entries are prepared with valid internal calls; plus legacy/isal_ twin pairs on identical valid inputs with byte-wise comparison of all outputs",
  'bound': {'quick': 'full lattice (exhaustive, ~1.0e5 cases), 6 length classes for twins', 'thorough': 'same'},
  'deadline': {'quick': 120, 'thorough': 600}, 'assumptions': A_COMMON + ["the documented domain is transcribed by hand from include/*.h; where the headers are silent (e.g. NULL data pointer with length 0, tag length 4) either outcome is accepted"],
 },
 'C13': {
  'level': 'model_checking',
  'steps': [{'engine': 'e4_api', 'variant': 'VF', 'args': ['--mode=fips'], 'shards': 16},
            {'engine': 'e4_api', 'variant': 'VF', 'args': ['--mode=latch', '--latch-max-threads=2'], 'shards': 9}],
  'eval_stats': ['transitions'], 'distinct_key': 'histories', 'state_stats': ['states'], 'transition_stats': ['transitions'],
  'rule': "FIPS_MODE build with the self-test bodies redirected (objcopy --redefine-sym on a private copy of self_tests.o) to shims that count entries and return scripted outcomes whose failure values are calibrated from the genuine _aes_self_tests/_sha_self_tests run over a deliberately mis-bound primitive; plus a sensitivity step on the genuine self-tests (each of the 44 dispatch slots of approved algorithms re-pointed to a saboteur that corrupts the bound function's output: if the class self-test calls it, it must fail and isal_self_tests must latch the failure); explored: initial latch state {not run, passed, failed via asm_set_self_tests_status(1), failed via AES outcome, failed via SHA outcome} x outcome sequences of length 2 over {pass, AES fails, SHA fails} x first call e1 in all 70 catalogued entry points with valid arguments x second call e2 (quick: every 6th, rotating; thorough: all 70); oracle: 3-state reference machine - approved entry refused with ISAL_CRYPTO_ERR_SELF_TEST and outputs bytewise untouched whenever the self-tests have failed or fail now, self-tests entered exactly once by the first approved call and never again, 0 after a pass, non-approved entries always ISAL_CRYPTO_ERR_FIPS_INVALID_ALGO, all eight XTS entries refuse key1 == key2 (raw and expanded) in every latch state; plus the two-thread interleaving exploration of C17 (a caller that waits for another thread's failing self-tests must be refused as well)",
  'bound': {'quick': 'two-step histories with a rotating 1/6 subset of second calls', 'thorough': 'all two-step histories'},
  'deadline': {'quick': 200, 'thorough': 1500}, 'assumptions': A_COMMON + ["the self-test bodies are replaced by shims (what is verified is the latch and the gates, not the known-answer tests themselves)"],
 },
 'C17': {
  'level': 'model_checking',
  'steps': [{'engine': 'e4_api', 'variant': 'VF', 'args': ['--mode=latch'], 'shards': 21}],
  'eval_stats': ['schedules'], 'distinct_key': 'configs', 'state_stats': ['states'], 'transition_stats': ['transitions'], 'trace_stats': ['schedules'],
  'rule': "stateless exploration of real pthreads through the real lock-free latch (asm_check_self_tests_status / isal_self_tests / asm_set_self_tests_status): the page holding self_test_status (and the sha256 manager-init dispatch slot) is PROT_NONE, so every load, lock cmpxchg and store of the status word faults and becomes a scheduling point discovered from the machine code (single instruction let through under the trap flag); the running self-tests (shims) are scheduling points too; exactly one thread runs at a time; depth-first over choice sequences with a visited set of canonical states (per-thread history of (rip, value observed), status word, shim counters); spinning threads (same load, same registers, no intervening store) are disabled until somebody stores; threads N in {1,2,3} with unbounded preemptions (exhaustive), N=4 preemption-bounded; bodies {isal_self_tests x2} and one {approved public entry, isal_self_tests}; outcomes {pass, AES fails, SHA fails (calibrated -1)}; oracle on every complete execution: self-tests entered exactly once, no call returns and no primitive starts before they finished, every return equals the verdict, no deadlock / livelock; every failing schedule is replayed before it is reported",
  'bound': {'quick': 'N<=3 exhaustive; N=4 with <=2 preemptions', 'thorough': 'N<=3 exhaustive; N=4 with <=6 preemptions'},
  'deadline': {'quick': 300, 'thorough': 2400},
  'assumptions': A_COMMON + ["interleavings are sequentially consistent at instruction granularity; x86-TSO store buffering is not explored (the protocol publishes with a single plain store after a locked RMW, for which TSO and SC allow the same outcomes)", "self-test bodies are shims (entry/exit are events); what is explored is the latch protocol"],
 },
 'C18': {
  'level': 'model_checking',
  'steps': [dict(e3('gcm'), args=['--what=gcm', '--wtrap']), dict(e3('xts', 8, 16), args=['--what=xts', '--wtrap']), dict(e3('cbc', 4, 8), args=['--what=cbc', '--wtrap']), dict(e3('keyexp', 2, 4), args=['--what=keyexp', '--wtrap']),
            dict(e2('mh1', 8, 16), args=['--what=mh1', '--wtrap']), dict(e2('mh256', 8, 16), args=['--what=mh256', '--wtrap']), dict(e2('mur', 8, 16), args=['--what=mur', '--wtrap']),
            dict(e2('roll', 16, 16), args=['--what=roll', '--wtrap']), dict(e2('gcms', 16, 16), args=['--what=gcms', '--wtrap']),
            e1('explore', 112, ['--wtrap', '--d4=1', '--d8=1', '--d16=1']), e1('explore', 112, ['--wtrap', '--entry=public', '--d4=1']),
            {'engine': 'e4_api', 'variant': 'V', 'args': ['--mode=lattice', '--wtrap'], 'shards': 8},
            {'engine': 'e4_api', 'variant': 'V', 'args': ['--mode=race'], 'shards': 16}],
  'eval_stats': ['schedules', 'library_calls'], 'distinct_key': 'raced_entry_points', 'state_stats': ['states'], 'transition_stats': ['transitions'], 'trace_stats': ['schedules'],
  'rule': "(a) inventory by execution: all library statics (sections .data/.bss of every object, isolated by ld -r + section renaming into page-aligned isal_data/isal_bss) are mapped read-only while the complete operation alphabets of E1, E2, E3 and E4 run on every family; every store is trapped, attributed to a symbol and to library or harness code; oracle: symbols written by library code subset of {*_dispatched, self_test_status}. (b) first-call races: for each public entry point that goes through a dispatch slot, 2 and 3 (thorough: 4) threads make their first call simultaneously on their own objects; the dispatch slots are PROT_NONE so every load (jmp [slot]), store (resolver) and reload is a scheduling point; all interleavings are explored (visited-state pruning, unbounded preemptions); oracle: every thread's outputs and return value equal the sequential ones, each slot ends at the sequential binding, every value ever read from a slot is the resolver stub or the final target",
  'bound': {'quick': '(a) quick grids; (b) 2 and 3 threads, all interleavings', 'thorough': '(a) thorough grids; (b) 2-4 threads'},
  'deadline': {'quick': 300, 'thorough': 2700},
  'assumptions': A_COMMON + ["(a) sees only writes on driven paths", "SC interleavings at instruction granularity; TSO store buffering not explored (single aligned pointer store of a value every racing thread computes identically)"],
 },
}
