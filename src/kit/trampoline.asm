; Universal call trampoline (DESIGN.md 3.4).  uint64_t vcall(void *fn, vcall_env *env)
;   - optional poison of dead stack (64 KiB), zmm0-31 / k0-7 (or xmm0-15), caller-saved GPRs, flags
;   - sentinels in rbx, rbp, r12-r15; canary zone above the outgoing stack arguments
;   - after return captures, without using the stack, everything the callee left behind
; Single-threaded by design (static save area).
default rel
%define DEAD 65536
%define CANARY_Q 32                 ; 32 qwords = 256 bytes canary zone

; struct vcall_env layout (must match vkit.h)
struc ENV
  .mode      resq 1   ; bit0 poison regs, bit1 poison+capture stack, bit2 capture vector regs, bit3 have avx512
  .poison    resq 1
  .nstack    resq 1   ; number of stack arguments
  .args      resq 16  ; args[0..5] in registers, args[6..] on the stack
  .ret       resq 1
  .out_gpr   resq 8   ; rbx rbp r12 r13 r14 r15 rsp rflags   (after)
  .exp_rsp   resq 1
  .mxcsr_in  resd 1
  .mxcsr_out resd 1
  .cw_in     resw 1
  .cw_out    resw 1
  .skew      resd 1   ; caller stack position class: rsp mod 64 at the call instruction = 64 - 16*skew (mod 64)
  .canary    resq CANARY_Q
  .stack_cap resq 1   ; pointer to DEAD bytes or 0
  .k         resq 8
  .zmm       resb 32*64
endstruc

%define S_RBX 0x5bb5b00b5bb5b00b
%define S_RBP 0x5bb5b99b5bb5b99b
%define S_R12 0x5121212121212125
%define S_R13 0x5131313131313135
%define S_R14 0x5141414141414145
%define S_R15 0x5151515151515155
%define CANARY 0xC19C19C19C19C19C

section .bss
align 64
vc_env:  resq 1
vc_fn:   resq 1
vc_rsp:  resq 1
vc_tmp:  resq 4
vc_rbp:  resq 1

section .text
global vcall
vcall:
	push	rbp
	mov	rbp, rsp
	push	rbx
	push	r12
	push	r13
	push	r14
	push	r15
	sub	rsp, 8
	mov	[vc_fn], rdi
	mov	[vc_rbp], rbp
	mov	[vc_env], rsi
	mov	rbx, rsi                    ; rbx = env for the set-up phase
	stmxcsr	[rbx + ENV.mxcsr_in]
	fnstcw	[rbx + ENV.cw_in]
	; stack position class of the caller (all four ABI-legal values of rsp mod 64 occur over a sweep: routines that
	; align their frame with `and rsp, -64` have 0..48 bytes of slack depending on it)
	and	rsp, -64
	mov	eax, [rbx + ENV.skew]
	and	eax, 3
	shl	eax, 4
	sub	rsp, rax
	; canary zone
	sub	rsp, CANARY_Q*8
	mov	rax, CANARY
	mov	rdi, rsp
	mov	rcx, CANARY_Q
	rep stosq
	; outgoing stack arguments (keep 16-byte alignment)
	mov	rcx, [rbx + ENV.nstack]
	mov	rax, rcx
	add	rax, 1
	and	rax, -2
	shl	rax, 3
	sub	rsp, rax
	xor	rdx, rdx
.cpargs:
	cmp	rdx, rcx
	jae	.cpdone
	mov	rax, [rbx + ENV.args + 48 + rdx*8]
	mov	[rsp + rdx*8], rax
	inc	rdx
	jmp	.cpargs
.cpdone:
	mov	[vc_rsp], rsp
	mov	[rbx + ENV.exp_rsp], rsp
	; poison the dead stack
	test	qword [rbx + ENV.mode], 2
	jz	.nostackpoison
	lea	rdi, [rsp - DEAD]
	mov	rcx, DEAD/8
	mov	rax, [rbx + ENV.poison]
	rep stosq
.nostackpoison:
	test	qword [rbx + ENV.mode], 1
	jz	.noregpoison
	mov	rax, [rbx + ENV.poison]
	mov	rdx, 0x0101010101010101
	test	qword [rbx + ENV.mode], 8
	jz	.ssepoison
%assign i 0
%rep 32
	vpbroadcastq zmm %+ i, rax
	add	rax, rdx
%assign i i+1
%endrep
%assign i 0
%rep 8
	kmovq	k %+ i, rax
	add	rax, rdx
%assign i i+1
%endrep
	jmp	.noregpoison
.ssepoison:
%assign i 0
%rep 16
	movq	xmm %+ i, rax
	punpcklqdq xmm %+ i, xmm %+ i
	add	rax, rdx
%assign i i+1
%endrep
.noregpoison:
	; flags: arithmetic flags from poison (only when poisoning), DF clear
	mov	rax, 0x202
	test	qword [rbx + ENV.mode], 1
	jz	.setflags
	mov	rax, [rbx + ENV.poison]
	and	rax, 0x8D5
	or	rax, 0x202
.setflags:
	test	qword [rbx + ENV.mode], 16
	jz	.notrace
	or	rax, 0x100                  ; trap flag: single-step from here until the return
.notrace:
	push	rax
	popfq
	; argument registers
	mov	rdi, [rbx + ENV.args + 0]
	mov	rsi, [rbx + ENV.args + 8]
	mov	rdx, [rbx + ENV.args + 16]
	mov	rcx, [rbx + ENV.args + 24]
	mov	r8,  [rbx + ENV.args + 32]
	mov	r9,  [rbx + ENV.args + 40]
	mov	rax, [rbx + ENV.poison]
	mov	r10, rax
	mov	r11, rax
	not	r11
	; sentinels (mov does not touch flags)
	mov	rbp, S_RBP
	mov	r12, S_R12
	mov	r13, S_R13
	mov	r14, S_R14
	mov	r15, S_R15
	mov	rbx, S_RBX
	call	[vc_fn]
	; ---- no stack use until rsp is restored ----
	mov	[vc_tmp], rax
	mov	[vc_tmp + 8], rbx
	mov	rbx, [vc_env]
	mov	[rbx + ENV.ret], rax
	mov	rax, [vc_tmp + 8]
	mov	[rbx + ENV.out_gpr + 0], rax
	mov	[rbx + ENV.out_gpr + 8], rbp
	mov	[rbx + ENV.out_gpr + 16], r12
	mov	[rbx + ENV.out_gpr + 24], r13
	mov	[rbx + ENV.out_gpr + 32], r14
	mov	[rbx + ENV.out_gpr + 40], r15
	mov	[rbx + ENV.out_gpr + 48], rsp
	mov	rsp, [vc_rsp]
	pushfq                              ; lands on the dead return-address slot
	pop	rax
	mov	[rbx + ENV.out_gpr + 56], rax
	and	rax, ~0x500                 ; stop single-stepping, clear DF
	push	rax
	popfq
	stmxcsr	[rbx + ENV.mxcsr_out]
	fnstcw	[rbx + ENV.cw_out]
	; vector / mask registers
	test	qword [rbx + ENV.mode], 4
	jz	.novec
	test	qword [rbx + ENV.mode], 8
	jz	.ssecap
%assign i 0
%rep 32
	vmovdqu64 [rbx + ENV.zmm + 64*i], zmm %+ i
%assign i i+1
%endrep
%assign i 0
%rep 8
	kmovq	[rbx + ENV.k + 8*i], k %+ i
%assign i i+1
%endrep
	jmp	.novec
.ssecap:
%assign i 0
%rep 16
	movdqu	[rbx + ENV.zmm + 64*i], xmm %+ i
%assign i i+1
%endrep
.novec:
	; dead stack capture
	test	qword [rbx + ENV.mode], 2
	jz	.nocap
	mov	rdi, [rbx + ENV.stack_cap]
	test	rdi, rdi
	jz	.nocap
	lea	rsi, [rsp - DEAD]
	mov	rcx, DEAD
	rep movsb
.nocap:
	; canary zone copy-out (located just above the outgoing args)
	mov	rcx, [rbx + ENV.nstack]
	add	rcx, 1
	and	rcx, -2
	lea	rsi, [rsp + rcx*8]
	lea	rdi, [rbx + ENV.canary]
	mov	rcx, CANARY_Q
	rep movsq
	; restore control state for the harness
	test	qword [rbx + ENV.mode], 8
	jz	.novz
	vzeroupper
.novz:
	ldmxcsr	[rbx + ENV.mxcsr_in]
	fldcw	[rbx + ENV.cw_in]
	mov	rax, [rbx + ENV.ret]
	mov	rbp, [vc_rbp]
	lea	rsp, [rbp - 40]
	pop	r15
	pop	r14
	pop	r13
	pop	r12
	pop	rbx
	pop	rbp
	ret

section .note.GNU-stack noalloc noexec nowrite progbits
