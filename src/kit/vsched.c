/* vsched - serialising scheduler + stateless explorer for real threads (DESIGN.md section 4, E5).
 * Library statics (sections isal_data / isal_bss) are PROT_NONE while an execution runs: the first touch of a
 * mutable static by the running thread faults; the SIGSEGV handler records the pending access and yields to the
 * scheduler; the chosen thread performs exactly that one instruction (page unprotected, trap flag set, SIGTRAP
 * handler re-protects) and runs on to its next access. Scheduling points are therefore discovered from the
 * machine code's behaviour, not placed by hand. Exactly one thread runs at a time (futex hand-off).
 * Explorer: depth-first over choice sequences, re-executing from a reset state; a visited set of canonical
 * states (per-thread history of (rip, value observed), shared words, oracle counters) prunes executions. */
#define _GNU_SOURCE
#include "vsched.h"
#include "vkit.h"
#include <pthread.h>
#include <signal.h>
#include <stdlib.h>
#include <unistd.h>
#include <errno.h>
#include <sys/mman.h>
#include <sys/syscall.h>
#include <linux/futex.h>
#include <ucontext.h>
#include <stdatomic.h>

extern char __start_isal_data[], __stop_isal_data[], __start_isal_bss[], __stop_isal_bss[];

enum { T_NEW, T_READY, T_RUNNING, T_DONE };
struct th {
	pthread_t tid; int idx;
	_Atomic int state; _Atomic uint32_t go;
	uintptr_t pend_addr, pend_rip; int pend_write; int pend_explicit;
	uintptr_t last_rip; uint64_t last_write_epoch; int spinning;
	uint64_t pend_regs, last_regs;   /* hash of the general registers at the access: a spin iteration repeats them */
	uint64_t hist;                /* hash of (rip, value observed) sequence */
	uintptr_t step_addr;          /* address being single-stepped */
	int silent_step;
};
static struct th T[VS_MAXT];
static struct vs_config *C;
static _Atomic uint32_t sched_wake;
static __thread int my_tid = -1;
static uint64_t write_epoch;
static int protected_now;
static volatile int free_run;      /* execution abandoned: let everything run unprotected */
static struct vs_event evlog[VS_MAXEV]; static int nev;
int vs_nevents(void) { return nev; }
const struct vs_event *vs_events(void) { return evlog; }

static void futex_wait(_Atomic uint32_t *f, uint32_t v) { syscall(SYS_futex, f, FUTEX_WAIT, v, NULL, NULL, 0); }
static void futex_wake(_Atomic uint32_t *f) { syscall(SYS_futex, f, FUTEX_WAKE, 1, NULL, NULL, 0); }

static uintptr_t pages[64]; static int npages;
static void compute_pages(void)
{
	npages = 0;
	for (int i = 0; i < C->naddrs; i++) {
		uintptr_t pg = C->addrs[i] & ~4095ul; int k;
		for (k = 0; k < npages && pages[k] != pg; k++) ;
		if (k == npages && npages < 64) pages[npages++] = pg;
	}
}
static void protect(int on)
{
	int pr = on ? PROT_NONE : PROT_READ | PROT_WRITE;
	for (int i = 0; i < npages; i++) mprotect((void *)pages[i], 4096, pr);
	protected_now = on;
}
static int in_statics(uintptr_t a)
{
	for (int i = 0; i < npages; i++) if ((a & ~4095ul) == pages[i]) return 1;
	return 0;
}
static int is_mutable_addr(uintptr_t a)
{
	for (int i = 0; i < C->naddrs; i++) if (a >= C->addrs[i] && a < C->addrs[i] + C->addr_size[i]) return 1;
	return 0;
}
void vs_event(int kind, int64_t v)
{
	if (nev < VS_MAXEV) evlog[nev++] = (struct vs_event){ my_tid, kind, v };
	if (kind >= VS_EV_USER && my_tid >= 0) T[my_tid].last_rip = 0;      /* the thread made observable progress: not a spin iteration */
}
/* yield to the scheduler at a scheduling point; returns when this thread is chosen */
static void point_yield(struct th *t)
{
	atomic_store(&t->state, T_READY);
	atomic_store(&sched_wake, 1); futex_wake(&sched_wake);
	while (atomic_load(&t->go) == 0) futex_wait(&t->go, 0);
	atomic_store(&t->go, 0);
	atomic_store(&t->state, T_RUNNING);
}
void vs_point(const char *what, int64_t v)
{
	if (my_tid < 0 || free_run) return;
	struct th *t = &T[my_tid];
	t->pend_addr = 0; t->pend_rip = (uintptr_t)what; t->pend_write = 0; t->pend_explicit = 1;
	point_yield(t);
	t->hist = vk_hash(&v, sizeof v, t->hist ^ (uintptr_t)what);
	t->last_rip = 0;
}
static void on_segv(int sig, siginfo_t *si, void *uc_)
{
	ucontext_t *uc = uc_;
	uintptr_t a = (uintptr_t)si->si_addr;
	(void)sig;
	if (my_tid < 0 || !protected_now || !in_statics(a)) {
		char b[160]; int n = snprintf(b, sizeof b, "vsched: unexpected fault addr %p rip %llx tid %d\n", si->si_addr, (unsigned long long)uc->uc_mcontext.gregs[REG_RIP], my_tid);
		if (write(2, b, n)) {}
		_exit(71);
	}
	struct th *t = &T[my_tid];
	if (free_run) { protect(0); return; }
	t->step_addr = a;
	t->silent_step = !is_mutable_addr(a);
	if (!t->silent_step) {
		t->pend_addr = a; t->pend_rip = uc->uc_mcontext.gregs[REG_RIP]; t->pend_write = (uc->uc_mcontext.gregs[REG_ERR] & 2) != 0; t->pend_explicit = 0;
		{ uint64_t g[16]; for (int r = 0; r < 16; r++) g[r] = uc->uc_mcontext.gregs[r]; t->pend_regs = vk_hash(g, sizeof g, 3); }   /* REG_R8..REG_RSP */
		point_yield(t);
		if (free_run) { protect(0); return; }
	}
	/* perform exactly this one instruction */
	protect(0);
	uc->uc_mcontext.gregs[REG_EFL] |= 0x100;
}
static void on_trap(int sig, siginfo_t *si, void *uc_)
{
	ucontext_t *uc = uc_;
	(void)sig; (void)si;
	if (my_tid < 0) return;
	struct th *t = &T[my_tid];
	uc->uc_mcontext.gregs[REG_EFL] &= ~0x100ull;
	if (free_run) return;
	if (!t->silent_step) {
		uint64_t val = 0;
		for (int i = 0; i < C->naddrs; i++) if (t->step_addr >= C->addrs[i] && t->step_addr < C->addrs[i] + C->addr_size[i]) { memcpy(&val, (void *)C->addrs[i], C->addr_size[i] > 8 ? 8 : C->addr_size[i]); t->step_addr = C->addrs[i]; break; }
		uint64_t h[3] = { t->pend_rip, val, (uint64_t)t->pend_write };
		t->hist = vk_hash(h, sizeof h, t->hist);
		if (t->pend_write || (C->value_changed && C->value_changed())) write_epoch++;
		vs_event(VS_EV_ACCESS, (int64_t)t->step_addr);
		vs_event(VS_EV_ACCESS_VAL, (int64_t)val);
	}
	protect(1);
}

static void *thread_main(void *arg)
{
	struct th *t = arg;
	my_tid = t->idx;
	/* initial scheduling point: do not start before being chosen */
	t->pend_addr = 0; t->pend_rip = 0; t->pend_write = 0; t->pend_explicit = 1;
	point_yield(t);
	C->body[t->idx](t->idx, C->arg[t->idx]);
	atomic_store(&t->state, T_DONE);
	atomic_store(&sched_wake, 1); futex_wake(&sched_wake);
	return NULL;
}

/* ---- one execution ---- */
struct vs_run { int npoints; uint8_t enabled[VS_MAXPTS]; int8_t chosen[VS_MAXPTS]; uint64_t key[VS_MAXPTS]; int8_t running_before[VS_MAXPTS]; int outcome; char msg[300]; };
static struct vs_run R;

static void wait_quiescent(void)
{
	/* wait until no thread is RUNNING / NEW */
	for (;;) {
		int busy = 0;
		for (int i = 0; i < C->nthreads; i++) { int s = atomic_load(&T[i].state); if (s == T_RUNNING || s == T_NEW) busy = 1; }
		if (!busy) return;
		while (atomic_load(&sched_wake) == 0) futex_wait(&sched_wake, 0);
		atomic_store(&sched_wake, 0);
	}
}
static uint64_t state_key(void)
{
	uint64_t k = C->state_extra ? C->state_extra() : 0;
	for (int i = 0; i < C->nthreads; i++) {
		uint64_t h[4] = { T[i].hist, (uint64_t)atomic_load(&T[i].state), (uint64_t)T[i].spinning, T[i].pend_rip ^ (T[i].pend_addr << 1) };
		k = vk_hash(h, sizeof h, k + i);
	}
	return k;
}
/* follow prefix[0..plen), then default choices; returns 0 ok, 1 violation (msg set) */
static int run_once(const int8_t *prefix, int plen)
{
	memset(&R, 0, sizeof R);
	nev = 0; write_epoch = 1;
	if (C->reset) C->reset();
	for (int i = 0; i < C->nthreads; i++) {
		memset(&T[i], 0, sizeof T[i]); T[i].idx = i; T[i].hist = 0x1234 + i;
		atomic_store(&T[i].state, T_NEW);
	}
	atomic_store(&sched_wake, 0);
	protect(1);
	for (int i = 0; i < C->nthreads; i++) pthread_create(&T[i].tid, NULL, thread_main, &T[i]);
	int running = -1, rc = 0;
	for (;;) {
		wait_quiescent();
		int alldone = 1; unsigned en = 0;
		for (int i = 0; i < C->nthreads; i++) {
			int s = atomic_load(&T[i].state);
			if (s != T_DONE) alldone = 0;
			if (s == T_READY) {
				struct th *t = &T[i];
				/* spinning: same read at the same rip again and nobody wrote in between */
				if (!t->pend_explicit && !t->pend_write && t->pend_rip == t->last_rip && t->pend_regs == t->last_regs && t->last_write_epoch == write_epoch) t->spinning = 1;
				else t->spinning = 0;
				if (!t->spinning) en |= 1u << i;
			}
		}
		if (alldone) break;
		if (!en) { snprintf(R.msg, sizeof R.msg, "no thread can make progress: every unfinished thread is spinning on a value nobody will change (deadlock) after %d points", R.npoints); rc = 1; break; }
		if (R.npoints >= VS_MAXPTS - 1 || R.npoints >= C->max_points) { snprintf(R.msg, sizeof R.msg, "execution exceeded %d scheduling points (livelock or unbounded retry)", R.npoints); rc = 1; break; }
		int p = R.npoints;
		protect(0); R.key[p] = state_key(); protect(1);     /* all workers are blocked: safe to look at the statics */
		R.enabled[p] = en; R.running_before[p] = running;
		int choice;
		if (p < plen) {
			choice = prefix[p];
			if (!(en & (1u << choice))) { snprintf(R.msg, sizeof R.msg, "replay divergence at point %d: thread %d not enabled (enabled mask %x)", p, choice, en); rc = 2; break; }
		} else {
			/* default: keep the running thread if still enabled, else lowest index */
			if (running >= 0 && (en & (1u << running))) choice = running; else choice = __builtin_ctz(en);
		}
		R.chosen[p] = choice; R.npoints++;
		if (getenv("VS_DEBUG")) { fprintf(stderr, "pt %d en=%x choose %d |", p, en, choice); for (int i = 0; i < C->nthreads; i++) fprintf(stderr, " t%d:st%d rip=%lx %s%s%s", i, atomic_load(&T[i].state), (unsigned long)T[i].pend_rip, T[i].pend_write ? "W" : "R", T[i].pend_explicit ? "X" : "", T[i].spinning ? " SPIN" : ""); fprintf(stderr, " epoch=%lu\n", (unsigned long)write_epoch); }
		struct th *t = &T[choice];
		t->last_rip = t->pend_explicit ? 0 : t->pend_rip; t->last_regs = t->pend_regs; t->last_write_epoch = write_epoch;
		running = choice;
		atomic_store(&t->state, T_RUNNING);
		atomic_store(&t->go, 1); futex_wake(&t->go);
	}
	if (rc) {
		/* release everything so that the threads can be joined: unprotect and let them run to completion */
		free_run = 1;
		protect(0);
		for (int k = 0; k < 2000; k++) {
			int left = 0;
			for (int i = 0; i < C->nthreads; i++) { int s = atomic_load(&T[i].state); if (s != T_DONE) { left = 1; if (s == T_READY) { atomic_store(&T[i].state, T_RUNNING); atomic_store(&T[i].go, 1); futex_wake(&T[i].go); } } }
			if (!left) break;
			if (C->unstick) C->unstick();
			usleep(100);
		}
		}
	for (int i = 0; i < C->nthreads; i++) pthread_join(T[i].tid, NULL);
	free_run = 0;
	protect(0);
	if (!rc && C->check) { if (C->check(R.msg, sizeof R.msg)) rc = 1; }
	R.outcome = rc;
	return rc;
}

/* ---- explorer ---- */
static uint64_t *vis; static size_t vis_cap, vis_n;
static int vis_test_set(uint64_t k)
{
	k |= 1; size_t j = vk_mix(k) & (vis_cap - 1);
	while (vis[j]) { if (vis[j] == k) return 1; j = (j + 1) & (vis_cap - 1); }
	if (vis_n * 2 < vis_cap) { vis[j] = k; vis_n++; }
	return 0;
}
static struct vs_stats ST;
static int viol_found;
static char viol_msg[400]; static int8_t viol_sched[VS_MAXPTS]; static int viol_len;

static int preemptions(const struct vs_run *r, int upto, int alt_at, int alt)
{
	int n = 0;
	for (int i = 0; i <= upto; i++) {
		int ch = (i == alt_at) ? alt : r->chosen[i];
		int rb = r->running_before[i];
		if (i == alt_at && i > 0) rb = r->chosen[i - 1];
		if (rb >= 0 && ch != rb && (r->enabled[i] & (1u << rb))) n++;
	}
	return n;
}
static void explore(int8_t *prefix, int plen, int depth)
{
	if (viol_found && !C->keep_going) return;
	if (C->max_executions && ST.executions >= (uint64_t)C->max_executions) { ST.capped = 1; return; }
	int rc = run_once(prefix, plen);
	ST.executions++; ST.points += R.npoints;
	if (R.npoints > ST.max_points_seen) ST.max_points_seen = R.npoints;
	if (rc == 2) { ST.replay_divergence++; if (!viol_found) { viol_found = 1; snprintf(viol_msg, sizeof viol_msg, "%s", R.msg); viol_len = R.npoints; memcpy(viol_sched, R.chosen, R.npoints); } return; }
	if (rc == 1) {
		ST.violating_executions++;
		if (!viol_found) {
			viol_found = 1; snprintf(viol_msg, sizeof viol_msg, "%s", R.msg); viol_len = R.npoints; memcpy(viol_sched, R.chosen, R.npoints);
			/* replay before report: the same schedule must fail again */
			int8_t s2[VS_MAXPTS]; int l2 = R.npoints; memcpy(s2, R.chosen, l2);
			int rc2 = run_once(s2, l2);
			ST.executions++;
			if (rc2 != 1) { ST.nondeterministic++; }
		}
		if (!C->keep_going) return;
	}
	struct vs_run r = R;     /* copy: recursion overwrites R */
	for (int i = plen; i < r.npoints; i++) {
		if (vis_test_set(r.key[i])) { ST.pruned++; continue; }
		ST.states++;
		for (int alt = 0; alt < C->nthreads; alt++) {
			if (alt == r.chosen[i] || !(r.enabled[i] & (1u << alt))) continue;
			if (C->preempt_bound >= 0 && preemptions(&r, i, i, alt) > C->preempt_bound) { ST.bounded_out++; continue; }
			int8_t np[VS_MAXPTS];
			memcpy(np, r.chosen, i); np[i] = alt;
			ST.transitions++;
			explore(np, i + 1, depth + 1);
			if (viol_found && !C->keep_going) return;
		}
	}
}
int vs_explore(struct vs_config *cfg, struct vs_stats *out, char *msg, size_t msgn, int8_t *sched, int *schedlen)
{
	static int installed;
	C = cfg;
	compute_pages();
	/* sanity: all mutable addresses lie in the isolated library data sections */
	for (int i = 0; i < C->naddrs; i++) if (!((C->addrs[i] >= (uintptr_t)__start_isal_data && C->addrs[i] < (uintptr_t)__stop_isal_data) || (C->addrs[i] >= (uintptr_t)__start_isal_bss && C->addrs[i] < (uintptr_t)__stop_isal_bss))) { fprintf(stderr, "vsched: address %lx outside isal_data/isal_bss\n", (unsigned long)C->addrs[i]); abort(); }
	{ struct sigaction sa; memset(&sa, 0, sizeof sa); sa.sa_flags = SA_SIGINFO; sigemptyset(&sa.sa_mask); sa.sa_sigaction = on_segv; sigaction(SIGSEGV, &sa, NULL); sa.sa_sigaction = on_trap; sigaction(SIGTRAP, &sa, NULL); }
	if (!installed) {
		struct sigaction sa; memset(&sa, 0, sizeof sa);
		sa.sa_flags = SA_SIGINFO; sigemptyset(&sa.sa_mask);
		sa.sa_sigaction = on_segv; sigaction(SIGSEGV, &sa, NULL);
		sa.sa_sigaction = on_trap; sigaction(SIGTRAP, &sa, NULL);
		installed = 1;
	}
	if (!vis) { vis_cap = 1 << 22; vis = calloc(vis_cap, 8); }
	memset(vis, 0, vis_cap * 8); vis_n = 0;
	memset(&ST, 0, sizeof ST); viol_found = 0;
	int8_t p[VS_MAXPTS];
	explore(p, 0, 0);
	*out = ST;
	if (viol_found) { snprintf(msg, msgn, "%s", viol_msg); if (sched) memcpy(sched, viol_sched, viol_len); if (schedlen) *schedlen = viol_len; }
	return viol_found;
}
int vs_replay(struct vs_config *cfg, const int8_t *sched, int len, char *msg, size_t msgn)
{
	C = cfg;
	compute_pages();
	int rc = run_once(sched, len);
	snprintf(msg, msgn, "%s", R.msg);
	return rc;
}
