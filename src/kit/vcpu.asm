; Virtual CPU (DESIGN.md 3.2). The V / VF library builds call these instead of executing
; cpuid / xgetbv (nasm -P hooks/cpu_virt.inc). All registers other than the architectural
; outputs are preserved, flags included.
default rel
section .data
align 16
global vcpu_mode, vcpu_l1, vcpu_l7, vcpu_xcr0, vcpu_ncpuid, vcpu_nxgetbv, vcpu_xgetbv_ud
vcpu_mode:      dd 0            ; 0 = pass-through, 1 = virtual
                dd 0
vcpu_l1:        dd 0,0,0,0      ; eax ebx ecx edx for leaf 1
vcpu_l7:        dd 0,0,0,0      ; leaf 7 subleaf 0
vcpu_xcr0:      dq 0
vcpu_ncpuid:    dq 0
vcpu_nxgetbv:   dq 0
vcpu_xgetbv_ud: dq 0            ; xgetbv executed while the virtual CPU has OSXSAVE = 0

section .text
global isal_verif_cpuid
global isal_verif_xgetbv
isal_verif_cpuid:
	pushfq
	inc	qword [vcpu_ncpuid]
	cmp	dword [vcpu_mode], 0
	je	.real
	cmp	eax, 1
	je	.l1
	cmp	eax, 7
	jne	.real
	test	ecx, ecx
	jnz	.real
	mov	eax, [vcpu_l7]
	mov	ebx, [vcpu_l7+4]
	mov	ecx, [vcpu_l7+8]
	mov	edx, [vcpu_l7+12]
	popfq
	ret
.l1:
	mov	eax, [vcpu_l1]
	mov	ebx, [vcpu_l1+4]
	mov	ecx, [vcpu_l1+8]
	mov	edx, [vcpu_l1+12]
	popfq
	ret
.real:
	cpuid
	popfq
	ret

isal_verif_xgetbv:
	pushfq
	inc	qword [vcpu_nxgetbv]
	cmp	dword [vcpu_mode], 0
	je	.real
	test	dword [vcpu_l1+8], 1<<27
	jnz	.ok
	inc	qword [vcpu_xgetbv_ud]
.ok:
	mov	eax, [vcpu_xcr0]
	mov	edx, [vcpu_xcr0+4]
	popfq
	ret
.real:
	xgetbv
	popfq
	ret

section .note.GNU-stack noalloc noexec nowrite progbits
