/* vkit: shared machinery of all engines (DESIGN.md section 3). */
#ifndef VKIT_H
#define VKIT_H
#include <stdint.h>
#include <stddef.h>
#include <stdio.h>
#include <string.h>
#include <setjmp.h>

/* ---------- options / reporting ---------- */
extern uint64_t vk_seed;
extern int vk_thorough;          /* 0 quick, 1 thorough */
extern int vk_shard, vk_nshards; /* work partitioning across processes */
extern const char *vk_only;      /* optional instance filter (substring) */
extern double vk_deadline_s;     /* soft deadline for this process, 0 = none */
extern int vk_replay_mode;
void vk_init(int argc, char **argv);
int vk_opt(const char *name, const char **val);    /* --name=value style extra options */
double vk_now(void);
int vk_deadline_hit(void);
/* one JSON object per line on the result stream (fd 3 if open, else stdout) */
void vk_emit(const char *fmt, ...) __attribute__((format(printf, 1, 2)));
/* violation: key = stable identity used by known_findings matching; replay = JSON object text */
void vk_violation(const char *prop, const char *key, const char *replay_json, const char *fmt, ...)
	__attribute__((format(printf, 4, 5)));
void vk_stat(const char *name, uint64_t add);        /* named counters, summed across shards */
void vk_stat_max(const char *name, uint64_t v);
void vk_distinct(const char *set, uint64_t key);     /* distinct-value counting (hashed set) */
void vk_sample(const char *fmt, ...) __attribute__((format(printf, 1, 2))); /* at most a few kept */
void vk_note(const char *fmt, ...) __attribute__((format(printf, 1, 2)));
void vk_finish(void);                                 /* dump counters */
extern int vk_nviol;

/* ---------- deterministic pseudo-random data ---------- */
uint64_t vk_mix(uint64_t x);
void vk_fill(void *p, size_t n, uint64_t tag);       /* contents depend on (seed, tag) only */
uint64_t vk_hash(const void *p, size_t n, uint64_t h);

/* ---------- guarded memory slots ---------- */
typedef struct {
	uint8_t *ro;      /* view handed to the library (read-only if dual) */
	uint8_t *rw;      /* harness view (== ro if not dual) */
	size_t size;      /* usable bytes, multiple of the page size; guard pages on both sides */
	int dual;
	const char *name;
} vk_slot;
/* dual: library view is PROT_READ, harness writes through an alias (inputs never modified) */
void vk_slot_init(vk_slot *s, const char *name, size_t size, int dual);
/* place an object of n bytes: end-flush (last byte = last byte before the guard page) or
 * start-flush (first byte right after the guard page). Returns offset into the slot. */
enum { VK_END = 0, VK_START = 1, VK_MID = 2 };
size_t vk_place(const vk_slot *s, size_t n, int where, size_t align, size_t midoff);
void vk_canary_fill(vk_slot *s);
/* verify canary bytes outside [off, off+n) (window of 4096 bytes either side); returns -1 if ok,
 * else the offset of the first damaged byte */
long vk_canary_check(const vk_slot *s, size_t off, size_t n);
#define VK_CANARY 0xA7

/* ---------- fault containment ---------- */
typedef struct {
	int sig;
	uintptr_t addr, rip;
	int is_write;
} vk_fault;
extern sigjmp_buf vk_jmp;
extern volatile int vk_armed;
extern vk_fault vk_last_fault;
void vk_faults_install(void);
/* usage: if (VK_TRY()) { call } else { faulted; inspect vk_last_fault } VK_END_TRY(); */
#define VK_TRY() (vk_armed = 1, sigsetjmp(vk_jmp, 1) == 0)
#define VK_END_TRY() (vk_armed = 0)
/* describe address relative to known slots */
void vk_slot_register(const vk_slot *s);
const char *vk_describe_addr(uintptr_t a, char *buf, size_t n);
const char *vk_describe_rip(uintptr_t rip, char *buf, size_t n);
void vk_alarm(unsigned ms);    /* runaway protection; 0 cancels */

/* ---------- universal trampoline ---------- */
#define VC_POISON_REGS 1
#define VC_STACK 2
#define VC_CAPVEC 4
#define VC_AVX512 8
#define VC_TRACE 16        /* single-step the callee and record executed instruction addresses (ISA measurement) */
#define VC_DEAD 65536
typedef struct vcall_env {
	uint64_t mode, poison, nstack;
	uint64_t args[16];
	uint64_t ret;
	uint64_t out_gpr[8];        /* rbx rbp r12 r13 r14 r15 rsp rflags */
	uint64_t exp_rsp;
	uint32_t mxcsr_in, mxcsr_out;
	uint16_t cw_in, cw_out;
	uint32_t skew;      /* stack position class (0..3) */
	uint64_t canary[32];
	uint8_t *stack_cap;
	uint64_t k[8];
	uint8_t zmm[32][64];
} vcall_env;
uint64_t vcall(void *fn, vcall_env *env);
extern vcall_env vk_env;         /* the environment used by VCALL */
extern uint64_t vk_call_mode;    /* mode bits applied to each VCALL */
extern uint64_t vk_call_poison;
extern int vk_have_avx512;
extern const char *vk_cur_fn;    /* name of function being called (for reports) */
uint64_t vk_vcall_n(void *fn, const char *name, int nargs, ...);
/* returns bitmask of ABI violations of the last call (0 = clean) and emits C19 violation */
unsigned vk_abi_check(const char *ctx);
extern int vk_abi_enabled;       /* emit C19 violations from VCALL */
extern uint64_t vk_ncalls;
#define VK_NARG(...) VK_NARG_(__VA_ARGS__, 12, 11, 10, 9, 8, 7, 6, 5, 4, 3, 2, 1, 0)
#define VK_NARG_(_1, _2, _3, _4, _5, _6, _7, _8, _9, _10, _11, _12, N, ...) N
/* VCALL(fn, args...) : every argument is converted to uint64_t */
#define VCALL(fn, ...) vk_vcall_n((void *)(fn), #fn, VK_NARG(__VA_ARGS__), __VA_ARGS__)
#define VCALLN(fn, name, ...) vk_vcall_n((void *)(fn), name, VK_NARG(__VA_ARGS__), __VA_ARGS__)
/* 32-bit argument with poisoned upper half (public C entry points only) */
#define A32(x) ((uint64_t)(uint32_t)(x) | (vk_call_mode & VC_POISON_REGS ? (vk_call_poison & 0xffffffff00000000ULL) : 0))
#define AP(p) ((uint64_t)(uintptr_t)(p))
#define A64(x) ((uint64_t)(x))

/* ---------- secret scan of captured registers / dead stack (C14) ---------- */
void vk_sec_reset(void);
void vk_sec_add(const uint8_t *p16, const char *name, int idx);
void vk_sec_add_key(const uint8_t *key, int keybits);   /* raw key halves + all enc/dec round keys */
void vk_sec_scan(const char *fn, const char *shape);     /* needs VC_STACK|VC_CAPVEC call mode */

/* ---------- ISA measurement (C12): which instruction-set classes does a family function execute ---------- */
enum { ISA_SSE41, ISA_SSE42, ISA_AVX, ISA_AVX2, ISA_AVX512F, ISA_AVX512VL, ISA_AVX512BW, ISA_AVX512DQ, ISA_AVX512CD, ISA_SHA, ISA_VAES,
       ISA_VPCLMULQDQ, ISA_GFNI, ISA_VBMI2, ISA_VNNI, ISA_BITALG, ISA_VPOPCNTDQ, ISA_ZMM_STATE, ISA_YMM_STATE,
       ISA_INFO_SSSE3, ISA_INFO_AESNI, ISA_INFO_PCLMUL, ISA_INFO_BMI, ISA_NCLASS };
extern const char *vk_isa_names[ISA_NCLASS];
void vk_trace_enable(void);          /* VCALLs from now on run single-stepped; results emitted by vk_finish as type "isa" */
extern int vk_trace_on;
extern int vk_want_trace;       /* --trace-isa given: engines reduce their grids and call vk_trace_enable() */

/* ---------- write trap on library statics (C18a) ---------- */
void vk_wtrap_enable(void);          /* isal_data / isal_bss become read-only; library stores are logged and attributed */
void vk_wtrap_suspend(int off);
extern int vk_wtrap_on, vk_want_wtrap;

/* ---------- virtual CPU ---------- */
extern uint32_t vcpu_mode, vcpu_l1[4], vcpu_l7[4];
extern uint64_t vcpu_xcr0, vcpu_ncpuid, vcpu_nxgetbv, vcpu_xgetbv_ud;
void vk_cpu_real(uint32_t l1[4], uint32_t l7[4], uint64_t *xcr0);
/* host capability levels for running family symbols directly */
enum { VK_F_BASE, VK_F_SSE, VK_F_AVX, VK_F_AVX2, VK_F_AVX512, VK_F_SHANI, VK_F_AVX512_SHANI, VK_F_VAES, VK_F_NFAM };
int vk_host_can(int fam);

/* ---------- symbol lookup (generated from nm of the fresh library) ---------- */
struct vk_sym { const char *name; void *addr; char type; };
extern const struct vk_sym vk_symtab[];
extern const unsigned vk_nsyms;
void *vk_sym(const char *name);                 /* NULL if absent */
const char *vk_sym_at(uintptr_t addr, uintptr_t *off);

#endif
