#define _GNU_SOURCE
#include "vkit.h"
#include "ref.h"
#include <stdarg.h>
#include <stdlib.h>
#include <signal.h>
#include <unistd.h>
#include <time.h>
#include <sys/mman.h>
#include <sys/time.h>
#include <ucontext.h>
#include <errno.h>
#include <cpuid.h>

uint64_t vk_seed = 1;
int vk_thorough, vk_shard, vk_nshards = 1, vk_replay_mode;
const char *vk_only;
double vk_deadline_s;
int vk_nviol;
int vk_want_trace;
int vk_want_wtrap;
static FILE *vk_out;
static double vk_t0;
static int vk_argc;
static char **vk_argv;

double vk_now(void)
{
	struct timespec ts;
	clock_gettime(CLOCK_MONOTONIC, &ts);
	return ts.tv_sec + ts.tv_nsec * 1e-9;
}
int vk_deadline_hit(void) { return vk_deadline_s > 0 && vk_now() - vk_t0 > vk_deadline_s; }

int vk_opt(const char *name, const char **val)
{
	size_t n = strlen(name);
	for (int i = 1; i < vk_argc; i++) {
		const char *a = vk_argv[i];
		if (a[0] == '-' && a[1] == '-' && !strncmp(a + 2, name, n)) {
			if (a[2 + n] == '=') { if (val) *val = a + 3 + n; return 1; }
			if (a[2 + n] == 0) { if (val) *val = ""; return 1; }
		}
	}
	return 0;
}

void vk_init(int argc, char **argv)
{
	const char *v;
	vk_argc = argc; vk_argv = argv;
	vk_t0 = vk_now();
	if (vk_opt("seed", &v)) vk_seed = strtoull(v, 0, 0);
	else if (getenv("VERIF_SEED")) vk_seed = strtoull(getenv("VERIF_SEED"), 0, 0);
	if (vk_opt("tier", &v)) vk_thorough = !strcmp(v, "thorough");
	if (vk_opt("shard", &v)) sscanf(v, "%d/%d", &vk_shard, &vk_nshards);
	if (vk_opt("only", &v)) vk_only = v;
	if (vk_opt("deadline", &v)) vk_deadline_s = atof(v);
	if (vk_opt("replay", &v)) vk_replay_mode = 1;
	if (vk_opt("out", &v)) vk_out = fopen(v, "w");
	vk_want_trace = vk_opt("trace-isa", &v);
	vk_want_wtrap = vk_opt("wtrap", &v);
	if (!vk_out) vk_out = stdout;
	setvbuf(vk_out, NULL, _IOLBF, 0);
	vk_faults_install();
	{
		unsigned a, b, c, d;
		vk_have_avx512 = 0;
		if (__get_cpuid_count(7, 0, &a, &b, &c, &d)) {
			unsigned need = (1u << 16) | (1u << 17) | (1u << 30) | (1u << 31) | (1u << 28);
			if ((b & need) == need) vk_have_avx512 = 1;
		}
	}
}

void vk_emit(const char *fmt, ...)
{
	va_list ap;
	va_start(ap, fmt);
	vfprintf(vk_out, fmt, ap);
	va_end(ap);
	fputc('\n', vk_out);
}

static void json_escape(char *dst, size_t n, const char *src)
{
	size_t o = 0;
	for (; *src && o + 8 < n; src++) {
		unsigned char c = *src;
		if (c == '"' || c == '\\') { dst[o++] = '\\'; dst[o++] = c; }
		else if (c < 0x20) o += snprintf(dst + o, n - o, "\\u%04x", c);
		else dst[o++] = c;
	}
	dst[o] = 0;
}

/* per-process limit on violations with the same key so that a systematic defect does not flood */
#define MAXKEYS 4096
static struct { uint64_t h; unsigned n; } vkeys[MAXKEYS];
void vk_violation(const char *prop, const char *key, const char *replay_json, const char *fmt, ...)
{
	char detail[2048], esc[4096], kesc[1024];
	va_list ap;
	uint64_t h = vk_hash(key, strlen(key), vk_hash(prop, strlen(prop), 7));
	unsigned i;
	vk_nviol++;
	for (i = 0; i < MAXKEYS && vkeys[i].h && vkeys[i].h != h; i++) ;
	if (i < MAXKEYS) { vkeys[i].h = h; if (vkeys[i].n++ >= 3) { vk_stat("violations_suppressed_same_key", 1); return; } }
	va_start(ap, fmt);
	vsnprintf(detail, sizeof detail, fmt, ap);
	va_end(ap);
	json_escape(esc, sizeof esc, detail);
	json_escape(kesc, sizeof kesc, key);
	vk_emit("{\"type\":\"violation\",\"property\":\"%s\",\"key\":\"%s\",\"detail\":\"%s\",\"replay\":%s}", prop, kesc, esc,
		replay_json && *replay_json ? replay_json : "null");
}

#define MAXSTAT 512
static struct { char name[96]; uint64_t v; int is_max; } stats[MAXSTAT];
static int nstats;
static int stat_idx(const char *name)
{
	for (int i = 0; i < nstats; i++) if (!strcmp(stats[i].name, name)) return i;
	if (nstats == MAXSTAT) return MAXSTAT - 1;
	snprintf(stats[nstats].name, sizeof stats[nstats].name, "%s", name);
	return nstats++;
}
void vk_stat(const char *name, uint64_t add) { stats[stat_idx(name)].v += add; }
void vk_stat_max(const char *name, uint64_t v) { int i = stat_idx(name); stats[i].is_max = 1; if (v > stats[i].v) stats[i].v = v; }

/* distinct counting: open addressing sets of 64-bit keys, emitted as hashed key lists so that the
 * driver can union them across shards */
#define MAXSETS 24
static struct dset { char name[64]; uint64_t *tab; size_t cap, n; } dsets[MAXSETS];
static int ndsets;
void vk_distinct(const char *set, uint64_t key)
{
	struct dset *d = NULL;
	for (int i = 0; i < ndsets; i++) if (!strcmp(dsets[i].name, set)) { d = &dsets[i]; break; }
	if (!d) {
		if (ndsets == MAXSETS) return;
		d = &dsets[ndsets++];
		snprintf(d->name, sizeof d->name, "%s", set);
		d->cap = 1 << 12; d->tab = calloc(d->cap, 8);
	}
	key = vk_mix(key) | 1;
	if (d->n * 2 >= d->cap) {
		size_t oc = d->cap; uint64_t *ot = d->tab;
		d->cap *= 4; d->tab = calloc(d->cap, 8); d->n = 0;
		for (size_t i = 0; i < oc; i++) if (ot[i]) {
			size_t j = ot[i] & (d->cap - 1);
			while (d->tab[j]) j = (j + 1) & (d->cap - 1);
			d->tab[j] = ot[i]; d->n++;
		}
		free(ot);
	}
	size_t j = key & (d->cap - 1);
	while (d->tab[j]) { if (d->tab[j] == key) return; j = (j + 1) & (d->cap - 1); }
	d->tab[j] = key; d->n++;
}

static int nsamples;
void vk_sample(const char *fmt, ...)
{
	char b[1024], e[2048];
	va_list ap;
	if (nsamples >= 6) return;
	nsamples++;
	va_start(ap, fmt); vsnprintf(b, sizeof b, fmt, ap); va_end(ap);
	json_escape(e, sizeof e, b);
	vk_emit("{\"type\":\"sample\",\"text\":\"%s\"}", e);
}
void vk_note(const char *fmt, ...)
{
	char b[1024], e[2048];
	va_list ap;
	va_start(ap, fmt); vsnprintf(b, sizeof b, fmt, ap); va_end(ap);
	json_escape(e, sizeof e, b);
	vk_emit("{\"type\":\"note\",\"text\":\"%s\"}", e);
}
void vk_trace_finish(void);
void vk_wtrap_finish(void);
static void tr_set_name(const char *name);
void vk_finish(void)
{
	vk_trace_finish();
	vk_wtrap_finish();
	for (int i = 0; i < nstats; i++)
		vk_emit("{\"type\":\"stat\",\"name\":\"%s\",\"value\":%llu,\"max\":%d}", stats[i].name, (unsigned long long)stats[i].v, stats[i].is_max);
	for (int i = 0; i < ndsets; i++) {
		/* distinct sets can be large: emit the count and, for cross-shard union, the keys when small */
		struct dset *d = &dsets[i];
		fprintf(vk_out, "{\"type\":\"distinct\",\"name\":\"%s\",\"count\":%zu", d->name, d->n);
		if (d->n <= 60000) {
			fprintf(vk_out, ",\"keys\":[");
			int first = 1;
			for (size_t j = 0; j < d->cap; j++) if (d->tab[j]) { fprintf(vk_out, "%s\"%llx\"", first ? "" : ",", (unsigned long long)d->tab[j]); first = 0; }
			fprintf(vk_out, "]");
		}
		fprintf(vk_out, "}\n");
	}
	vk_emit("{\"type\":\"done\",\"wall_s\":%.3f,\"calls\":%llu,\"deadline_hit\":%d}", vk_now() - vk_t0, (unsigned long long)vk_ncalls, vk_deadline_hit());
	fflush(vk_out);
}

/* ---------- rng ---------- */
uint64_t vk_mix(uint64_t x)
{
	x += 0x9e3779b97f4a7c15ULL;
	x = (x ^ (x >> 30)) * 0xbf58476d1ce4e5b9ULL;
	x = (x ^ (x >> 27)) * 0x94d049bb133111ebULL;
	return x ^ (x >> 31);
}
void vk_fill(void *p, size_t n, uint64_t tag)
{
	uint8_t *b = p;
	uint64_t s = vk_mix(vk_seed * 0x100000001b3ULL ^ vk_mix(tag));
	size_t i = 0;
	for (; i + 8 <= n; i += 8) { s = vk_mix(s); memcpy(b + i, &s, 8); }
	if (i < n) { s = vk_mix(s); memcpy(b + i, &s, n - i); }
}
uint64_t vk_hash(const void *p, size_t n, uint64_t h)
{
	const uint8_t *b = p;
	size_t i = 0;
	h = vk_mix(h ^ 0xcbf29ce484222325ULL) + n;
	for (; i + 8 <= n; i += 8) { uint64_t v; memcpy(&v, b + i, 8); h = (h ^ v) * 0x100000001b3ULL; h ^= h >> 29; }
	for (; i < n; i++) h = (h ^ b[i]) * 0x100000001b3ULL;
	return vk_mix(h);
}

/* ---------- slots ---------- */
#define PG 4096
static uintptr_t next_fixed = 0x200000000000ULL;   /* fixed addresses -> identical state images between runs */
#define MAXSLOTS 256
static const vk_slot *slots[MAXSLOTS];
static int nslots;
void vk_slot_register(const vk_slot *s) { if (nslots < MAXSLOTS) slots[nslots++] = s; }

void vk_slot_init(vk_slot *s, const char *name, size_t size, int dual)
{
	size = (size + PG - 1) / PG * PG;
	s->size = size; s->dual = dual; s->name = name;
	size_t total = size + 2 * PG;
	uint8_t *m = mmap((void *)next_fixed, total, PROT_NONE, MAP_PRIVATE | MAP_ANONYMOUS | MAP_FIXED_NOREPLACE, -1, 0);
	if (m == MAP_FAILED) m = mmap(NULL, total, PROT_NONE, MAP_PRIVATE | MAP_ANONYMOUS, -1, 0);
	if (m == MAP_FAILED) { perror("mmap"); exit(2); }
	next_fixed += total + 16 * PG;
	if (!dual) {
		if (mprotect(m + PG, size, PROT_READ | PROT_WRITE)) { perror("mprotect"); exit(2); }
		s->ro = s->rw = m + PG;
	} else {
		int fd = memfd_create(name, 0);
		if (fd < 0 || ftruncate(fd, size)) { perror("memfd"); exit(2); }
		if (mmap(m + PG, size, PROT_READ, MAP_SHARED | MAP_FIXED, fd, 0) == MAP_FAILED) { perror("mmap ro"); exit(2); }
		s->ro = m + PG;
		uint8_t *w = mmap((void *)next_fixed, size, PROT_READ | PROT_WRITE, MAP_SHARED | MAP_FIXED_NOREPLACE, fd, 0);
		if (w == MAP_FAILED) w = mmap(NULL, size, PROT_READ | PROT_WRITE, MAP_SHARED, fd, 0);
		if (w == MAP_FAILED) { perror("mmap rw"); exit(2); }
		next_fixed += size + 16 * PG;
		s->rw = w;
		close(fd);
	}
	vk_slot_register(s);
}
size_t vk_place(const vk_slot *s, size_t n, int where, size_t align, size_t midoff)
{
	size_t off;
	if (n > s->size) { fprintf(stderr, "vk_place: %zu > slot %s size %zu\n", n, s->name, s->size); abort(); }
	if (where == VK_END) { off = s->size - n; if (align > 1) off -= off % align; }
	else if (where == VK_START) off = 0;
	else { off = midoff; if (off + n > s->size) off = s->size - n; }
	return off;
}
void vk_canary_fill(vk_slot *s) { memset(s->rw, VK_CANARY, s->size); }
long vk_canary_check(const vk_slot *s, size_t off, size_t n)
{
	size_t lo = off > 4096 ? off - 4096 : 0, hi = off + n + 4096 < s->size ? off + n + 4096 : s->size;
	for (size_t i = lo; i < off; i++) if (s->rw[i] != VK_CANARY) return (long)i;
	for (size_t i = off + n; i < hi; i++) if (s->rw[i] != VK_CANARY) return (long)i;
	return -1;
}
const char *vk_describe_addr(uintptr_t a, char *buf, size_t n)
{
	for (int i = 0; i < nslots; i++) {
		const vk_slot *s = slots[i];
		uintptr_t b = (uintptr_t)s->ro;
		if (a >= b - PG && a < b + s->size + PG) {
			snprintf(buf, n, "%s%+ld(size %zu)%s", s->name, (long)(a - b), s->size, a < b ? " [guard below]" : a >= b + s->size ? " [guard above]" : s->dual ? " [read-only input]" : "");
			return buf;
		}
	}
	snprintf(buf, n, "addr 0x%lx (outside all slots)", (unsigned long)a);
	return buf;
}
const char *vk_describe_rip(uintptr_t rip, char *buf, size_t n)
{
	uintptr_t off;
	const char *s = vk_sym_at(rip, &off);
	if (s) snprintf(buf, n, "%s+0x%lx", s, (unsigned long)off);
	else snprintf(buf, n, "rip 0x%lx", (unsigned long)rip);
	return buf;
}

static void vk_install_trap_handler(void);
/* ---------- write trap on the library's static data (C18a) ---------- */
extern char __start_isal_data[] __attribute__((weak)), __stop_isal_data[] __attribute__((weak)), __start_isal_bss[] __attribute__((weak)), __stop_isal_bss[] __attribute__((weak));
int vk_wtrap_on;
static int wt_pending; static uintptr_t wt_page;
static uintptr_t wt_text_lo, wt_text_hi;
#define WT_MAX 256
static struct { uintptr_t addr, rip; uint64_t n; } wt_log[WT_MAX]; static int wt_n;
static uint64_t wt_harness_writes, wt_library_writes;
static int wt_in_statics(uintptr_t a)
{
	return (__start_isal_data && a >= (uintptr_t)__start_isal_data && a < (uintptr_t)__stop_isal_data) || (__start_isal_bss && a >= (uintptr_t)__start_isal_bss && a < (uintptr_t)__stop_isal_bss);
}
static void wt_protect(int ro)
{
	int pr = ro ? PROT_READ : PROT_READ | PROT_WRITE;
	if (__start_isal_data) mprotect(__start_isal_data, __stop_isal_data - __start_isal_data, pr);
	if (__start_isal_bss) mprotect(__start_isal_bss, __stop_isal_bss - __start_isal_bss, pr);
}
void vk_wtrap_enable(void)
{
	if (!__start_isal_data) { vk_note("write trap unavailable in this build variant"); return; }
	wt_text_lo = ~0ul; wt_text_hi = 0;
	for (unsigned i = 0; i < vk_nsyms; i++) if (vk_symtab[i].type == 'T') { uintptr_t a = (uintptr_t)vk_symtab[i].addr; if (a < wt_text_lo) wt_text_lo = a; if (a > wt_text_hi) wt_text_hi = a; }
	wt_text_hi += 1 << 16;
	vk_install_trap_handler();
	wt_protect(1);
	vk_wtrap_on = 1;
}
void vk_wtrap_suspend(int off) { if (vk_wtrap_on) wt_protect(!off); }

/* ---------- faults ---------- */
sigjmp_buf vk_jmp;
volatile int vk_armed;
vk_fault vk_last_fault;
static void (*vk_chain)(int, siginfo_t *, void *);
static void on_fault(int sig, siginfo_t *si, void *uc_)
{
	ucontext_t *uc = uc_;
	if (vk_wtrap_on && sig == SIGSEGV && (uc->uc_mcontext.gregs[REG_ERR] & 2) && wt_in_statics((uintptr_t)si->si_addr)) {
		/* a store into the library's static data: log it, let exactly this instruction through, re-protect in the trap handler */
		uintptr_t a = (uintptr_t)si->si_addr, rip = uc->uc_mcontext.gregs[REG_RIP];
		if (rip >= wt_text_lo && rip < wt_text_hi) {
			int i; wt_library_writes++;
			for (i = 0; i < wt_n && wt_log[i].addr != a; i++) ;
			if (i == wt_n && wt_n < WT_MAX) { wt_log[wt_n].addr = a; wt_log[wt_n].rip = rip; wt_n++; }
			if (i < WT_MAX) wt_log[i].n++;
		} else wt_harness_writes++;
		wt_page = a & ~4095ul;
		mprotect((void *)wt_page, 4096, PROT_READ | PROT_WRITE);
		wt_pending = 1;
		uc->uc_mcontext.gregs[REG_EFL] |= 0x100;
		return;
	}
	if (!vk_armed) {
		char b[200];
		int n = snprintf(b, sizeof b, "vkit: unexpected signal %d addr %p rip %llx outside VK_TRY\n", sig, si->si_addr,
				 (unsigned long long)uc->uc_mcontext.gregs[REG_RIP]);
		if (write(2, b, n)) {}
		_exit(70);
	}
	vk_last_fault.sig = sig;
	vk_last_fault.addr = (uintptr_t)si->si_addr;
	vk_last_fault.rip = uc->uc_mcontext.gregs[REG_RIP];
	vk_last_fault.is_write = (uc->uc_mcontext.gregs[REG_ERR] & 2) != 0;
	vk_armed = 0;
	siglongjmp(vk_jmp, 1);
}
void vk_faults_install(void)
{
	static uint8_t *alt;
	struct sigaction sa;
	stack_t ss;
	if (!alt) alt = mmap(NULL, 1 << 18, PROT_READ | PROT_WRITE, MAP_PRIVATE | MAP_ANONYMOUS, -1, 0);
	ss.ss_sp = alt; ss.ss_size = 1 << 18; ss.ss_flags = 0;
	sigaltstack(&ss, NULL);
	memset(&sa, 0, sizeof sa);
	sa.sa_sigaction = on_fault;
	sa.sa_flags = SA_SIGINFO | SA_ONSTACK | SA_NODEFER;
	sigemptyset(&sa.sa_mask);
	sigaction(SIGSEGV, &sa, NULL);
	sigaction(SIGBUS, &sa, NULL);
	sigaction(SIGILL, &sa, NULL);
	sigaction(SIGFPE, &sa, NULL);
	sigaction(SIGALRM, &sa, NULL);
	(void)vk_chain;
}
void vk_alarm(unsigned ms)
{
	struct itimerval it;
	memset(&it, 0, sizeof it);
	it.it_value.tv_sec = ms / 1000; it.it_value.tv_usec = (ms % 1000) * 1000;
	setitimer(ITIMER_REAL, &it, NULL);
}

/* ---------- trampoline wrapper ---------- */
vcall_env vk_env __attribute__((aligned(64)));
uint64_t vk_call_mode, vk_call_poison = 0x5a5a5a5a5a5a5a5aULL;
int vk_have_avx512, vk_abi_enabled = 1;
const char *vk_cur_fn = "";
uint64_t vk_ncalls;
static uint8_t *stack_cap_buf;

uint64_t vk_vcall_n(void *fn, const char *name, int nargs, ...)
{
	va_list ap;
	vcall_env *e = &vk_env;
	if (!fn) { fprintf(stderr, "vkit: NULL function %s\n", name); abort(); }
	e->mode = vk_call_mode | (vk_have_avx512 ? VC_AVX512 : 0);
	if (vk_trace_on) e->mode |= VC_TRACE;
	e->poison = vk_call_poison;
	if ((e->mode & VC_STACK) && !stack_cap_buf) stack_cap_buf = malloc(VC_DEAD);
	e->stack_cap = (e->mode & VC_STACK) ? stack_cap_buf : NULL;
	va_start(ap, nargs);
	for (int i = 0; i < 16; i++) e->args[i] = i < nargs ? va_arg(ap, uint64_t) : ((e->mode & VC_POISON_REGS) ? vk_mix(vk_call_poison + i) : 0);
	va_end(ap);
	e->nstack = nargs > 6 ? nargs - 6 : 0;
	e->skew = (uint32_t)(vk_mix(vk_ncalls * 0x9e3779b97f4a7c15ULL + 5) >> 17) & 3;   /* deterministic, but uncorrelated with the loop structure of the sweeps */
	vk_cur_fn = name;
	vk_ncalls++;
	if (vk_trace_on) tr_set_name(name);
	vk_distinct("functions_called", vk_hash(name, strlen(name), 77));
	vcall(fn, e);
	if (vk_abi_enabled) vk_abi_check(NULL);
	return e->ret;
}

unsigned vk_abi_check(const char *ctx)
{
	static const uint64_t sent[6] = { 0x5bb5b00b5bb5b00bULL, 0x5bb5b99b5bb5b99bULL, 0x5121212121212125ULL,
		0x5131313131313135ULL, 0x5141414141414145ULL, 0x5151515151515155ULL };
	static const char *rn[6] = { "rbx", "rbp", "r12", "r13", "r14", "r15" };
	vcall_env *e = &vk_env;
	unsigned bad = 0;
	char what[256] = "";
	for (int i = 0; i < 6; i++) if (e->out_gpr[i] != sent[i]) { bad |= 1u << i; strcat(what, rn[i]); strcat(what, " "); }
	if (e->out_gpr[6] != e->exp_rsp) { bad |= 64; strcat(what, "rsp "); }
	if (e->out_gpr[7] & 0x400) { bad |= 128; strcat(what, "DF "); }
	if ((e->mxcsr_in ^ e->mxcsr_out) & 0xffc0) { bad |= 256; strcat(what, "mxcsr "); }
	if (e->cw_in != e->cw_out) { bad |= 512; strcat(what, "x87cw "); }
	for (int i = 0; i < 32; i++) if (e->canary[i] != 0xC19C19C19C19C19CULL) { bad |= 1024; strcat(what, "frame-canary "); break; }
	if (bad) {
		char key[256];
		snprintf(key, sizeof key, "%s:%s", vk_cur_fn, what);
		vk_violation("C19", key, NULL, "callee-saved state not preserved by %s: %s(%s; caller rsp mod 64 = %u at the call)", vk_cur_fn, what, ctx ? ctx : "", (unsigned)(e->exp_rsp & 63));
	}
	return bad;
}

/* ---------- cpu ---------- */
void vk_cpu_real(uint32_t l1[4], uint32_t l7[4], uint64_t *xcr0)
{
	__cpuid_count(1, 0, l1[0], l1[1], l1[2], l1[3]);
	__cpuid_count(7, 0, l7[0], l7[1], l7[2], l7[3]);
	*xcr0 = 0;
	if (l1[2] & (1u << 27)) { uint32_t a, d; __asm__ volatile("xgetbv" : "=a"(a), "=d"(d) : "c"(0)); *xcr0 = ((uint64_t)d << 32) | a; }
}
int vk_host_can(int fam)
{
	static int done, can[VK_F_NFAM];
	if (!done) {
		uint32_t l1[4], l7[4]; uint64_t x;
		vk_cpu_real(l1, l7, &x);
		int sse = (l1[2] >> 19 & 1) && (l1[2] >> 20 & 1) && (l1[2] >> 25 & 1) /*aes*/ && (l1[2] >> 1 & 1) /*pclmul*/;
		int avx = sse && (l1[2] >> 28 & 1) && (l1[2] >> 27 & 1) && (x & 6) == 6;
		int avx2 = avx && (l7[1] >> 5 & 1) && (l7[1] >> 8 & 1) /*bmi2*/;
		unsigned g1 = (1u << 16) | (1u << 17) | (1u << 28) | (1u << 30) | (1u << 31);
		int avx512 = avx2 && (l7[1] & g1) == g1 && (x & 0xe0) == 0xe0;
		int sha = l7[1] >> 29 & 1;
		unsigned g2 = (1u << 6) | (1u << 8) | (1u << 9) | (1u << 10) | (1u << 11) | (1u << 12) | (1u << 14);
		can[VK_F_BASE] = 1; can[VK_F_SSE] = sse; can[VK_F_AVX] = avx; can[VK_F_AVX2] = avx2; can[VK_F_AVX512] = avx512;
		can[VK_F_SHANI] = sse && sha; can[VK_F_AVX512_SHANI] = avx512 && sha;
		can[VK_F_VAES] = avx512 && (l7[2] & g2) == g2;
		done = 1;
	}
	return can[fam];
}

/* ---------- symbols ---------- */
void *vk_sym(const char *name)
{
	for (unsigned i = 0; i < vk_nsyms; i++) if (!strcmp(vk_symtab[i].name, name)) return vk_symtab[i].addr;
	return NULL;
}
const char *vk_sym_at(uintptr_t a, uintptr_t *off)
{
	const char *best = NULL; uintptr_t bo = ~0ul;
	for (unsigned i = 0; i < vk_nsyms; i++) {
		uintptr_t s = (uintptr_t)vk_symtab[i].addr;
		if (s <= a && a - s < bo) { bo = a - s; best = vk_symtab[i].name; }
	}
	if (bo > (1 << 20)) return NULL;
	if (off) *off = bo;
	return best;
}

/* ---------- secrets (C14) ---------- */
#define MAXSEC 160
static struct { uint8_t b[16]; char name[24]; } secs[MAXSEC];
static int nsecs;
void vk_sec_reset(void) { nsecs = 0; }
void vk_sec_add(const uint8_t *p, const char *name, int idx)
{
	static const uint8_t z[16];
	if (nsecs == MAXSEC || !memcmp(p, z, 16)) return;
	/* low-entropy strings (e.g. all-equal bytes) could match poison: skip */
	int same = 1; for (int i = 1; i < 16; i++) if (p[i] != p[0]) same = 0;
	if (same) return;
	memcpy(secs[nsecs].b, p, 16);
	snprintf(secs[nsecs].name, sizeof secs[nsecs].name, "%s%d", name, idx);
	nsecs++;
}
void vk_sec_add_key(const uint8_t *key, int keybits)
{
	ref_aes_key k; uint8_t dk[15][16];
	ref_aes_expand(&k, key, keybits);
	ref_aes_dec_schedule(&k, dk);
	vk_sec_add(key, "rawkey", 0);
	if (keybits == 256) vk_sec_add(key + 16, "rawkey", 1);
	for (int r = 0; r <= k.nr; r++) { vk_sec_add(k.rk[r], "enc_rk", r); if (r && r < k.nr) vk_sec_add(dk[r], "dec_rk", r); }
}
void vk_sec_scan(const char *fn, const char *shape)
{
	if (!nsecs) return;
	static uint8_t filt[65536 / 8];
	memset(filt, 0, sizeof filt);
	for (int i = 0; i < nsecs; i++) { unsigned h = secs[i].b[0] | secs[i].b[1] << 8; filt[h >> 3] |= 1 << (h & 7); }
	vk_stat("secret_scans", 1);
	for (int pass = 0; pass < 2; pass++) {
		const uint8_t *p = pass ? vk_env.stack_cap : &vk_env.zmm[0][0];
		size_t n = pass ? VC_DEAD : (vk_have_avx512 ? 32 * 64 : 16 * 64);
		if (!p) continue;
		/* the top 8 bytes of the dead stack held the return address */
		for (size_t o = 0; o + 16 <= n; o++) {
			unsigned h = p[o] | p[o + 1] << 8;
			if (!(filt[h >> 3] & (1 << (h & 7)))) continue;
			for (int i = 0; i < nsecs; i++) if (!memcmp(p + o, secs[i].b, 16)) {
				char key[200], where[64];
				if (pass) snprintf(where, sizeof where, "stack");
				else snprintf(where, sizeof where, "zmm%zu", o / 64);
				/* key: function + kind of secret + register/stack (stable across shapes) */
				char kind[24]; snprintf(kind, sizeof kind, "%s", secs[i].name);
				for (char *c = kind; *c; c++) if (*c >= '0' && *c <= '9') { *c = 0; break; }
				snprintf(key, sizeof key, "%s:%s:%s", fn, kind, pass ? "stack" : "vecreg");
				vk_violation("C14", key, NULL, "%s leaves %s in %s (offset %zu%s) shape %s", fn, secs[i].name, where,
					     pass ? VC_DEAD - o : o % 64, pass ? " bytes below the call's rsp" : "", shape);
				o += 15;
				break;
			}
		}
	}
}


/* ---------- ISA measurement by single-stepping (C12) ---------- */
const char *vk_isa_names[ISA_NCLASS] = { "SSE4.1", "SSE4.2", "AVX", "AVX2", "AVX512F", "AVX512VL", "AVX512BW", "AVX512DQ", "AVX512CD", "SHA", "VAES",
	"VPCLMULQDQ", "GFNI", "AVX512VBMI2", "AVX512VNNI", "AVX512BITALG", "AVX512VPOPCNTDQ", "ZMM/opmask state", "YMM state",
	"(ssse3)", "(aesni)", "(pclmulqdq)", "(bmi)" };
int vk_trace_on;
static uintptr_t tr_lo, tr_hi;
static uint64_t *tr_set; static size_t tr_cap, tr_n; static uint64_t tr_traps;
#define TR_MAXNAMES 1024
static char tr_names[TR_MAXNAMES][96]; static int tr_nnames; static int tr_cur;
static void on_trap(int sig, siginfo_t *si, void *uc_)
{
	ucontext_t *uc = uc_;
	uintptr_t rip = uc->uc_mcontext.gregs[REG_RIP];
	(void)sig; (void)si;
	if (wt_pending) { wt_pending = 0; mprotect((void *)wt_page, 4096, PROT_READ); if (!vk_trace_on) uc->uc_mcontext.gregs[REG_EFL] &= ~0x100ull; return; }
	tr_traps++;
	if (rip < tr_lo || rip >= tr_hi) return;
	uint64_t k = ((uint64_t)tr_cur << 40) | (rip - tr_lo) | (1ull << 63);
	size_t j = vk_mix(k) & (tr_cap - 1);
	while (tr_set[j]) { if (tr_set[j] == k) return; j = (j + 1) & (tr_cap - 1); }
	if (tr_n * 2 > tr_cap) return;
	tr_set[j] = k; tr_n++;
}
void vk_trace_enable(void)
{
	struct sigaction sa;
	tr_lo = ~0ul; tr_hi = 0;
	for (unsigned i = 0; i < vk_nsyms; i++) if (vk_symtab[i].type == 'T') {
		uintptr_t a = (uintptr_t)vk_symtab[i].addr;
		if (a < tr_lo) tr_lo = a;
		if (a > tr_hi) tr_hi = a;
	}
	tr_hi += 1 << 16;
	tr_cap = 1 << 24; tr_set = calloc(tr_cap, 8);
	memset(&sa, 0, sizeof sa);
	sa.sa_sigaction = on_trap; sa.sa_flags = SA_SIGINFO | SA_ONSTACK;
	sigemptyset(&sa.sa_mask);
	sigaction(SIGTRAP, &sa, NULL);
	vk_trace_on = 1;
	vk_call_mode |= VC_TRACE;
}
static void tr_set_name(const char *name)
{
	if (tr_cur < tr_nnames && !strcmp(tr_names[tr_cur], name)) return;
	for (int i = 0; i < tr_nnames; i++) if (!strcmp(tr_names[i], name)) { tr_cur = i; return; }
	if (tr_nnames == TR_MAXNAMES) { tr_cur = TR_MAXNAMES - 1; return; }
	snprintf(tr_names[tr_nnames], sizeof tr_names[0], "%s", name);
	tr_cur = tr_nnames++;
}
static int has(const char *s, const char *t) { return strstr(s, t) != NULL; }
static int mn_in(const char *mn, const char *const *list) { for (; *list; list++) if (!strcmp(mn, *list)) return 1; return 0; }
static uint32_t classify(uintptr_t addr, const char *text)
{
	char mn[32]; int i = 0;
	while (text[i] && text[i] != ' ' && text[i] != '\t' && i < 31) { mn[i] = text[i]; i++; }
	mn[i] = 0;
	const char *ops = text + i;
	uint32_t c = 0;
	/* encoding class from the raw bytes (addr is a true instruction start: it was executed) */
	const uint8_t *b = (const uint8_t *)addr;
	int k = 0, evex = 0, vex = 0, ll = 0;
	while (k < 6 && (b[k] == 0x66 || b[k] == 0xf2 || b[k] == 0xf3 || b[k] == 0x2e || b[k] == 0x36 || b[k] == 0x3e || b[k] == 0x26 || b[k] == 0x64 || b[k] == 0x65 || b[k] == 0x67)) k++;
	if (b[k] == 0x62) { evex = 1; ll = (b[k + 3] >> 5) & 3; }
	else if (b[k] == 0xc4) { vex = 1; ll = (b[k + 2] >> 2) & 1; }
	else if (b[k] == 0xc5) { vex = 1; ll = (b[k + 1] >> 2) & 1; }
	static const char *const bmi[] = { "andn", "bextr", "bzhi", "mulx", "pdep", "pext", "rorx", "sarx", "shlx", "shrx", "blsi", "blsr", "blsmsk", "tzcnt", "lzcnt", NULL };
	if (mn_in(mn, bmi)) return 1u << ISA_INFO_BMI;
	int zmm = has(ops, "%zmm"), ymm = has(ops, "%ymm"), kreg = has(ops, "%k0") || has(ops, "%k1") || has(ops, "%k2") || has(ops, "%k3") || has(ops, "%k4") || has(ops, "%k5") || has(ops, "%k6") || has(ops, "%k7");
	if (!strncmp(mn, "sha1", 4) || !strncmp(mn, "sha256", 6)) c |= 1u << ISA_SHA;
	if (!strncmp(mn, "vgf2p8", 6) || !strncmp(mn, "gf2p8", 5)) c |= 1u << ISA_GFNI;
	if (!strncmp(mn, "aes", 3)) c |= 1u << ISA_INFO_AESNI;
	if (!strcmp(mn, "pclmulqdq") || !strncmp(mn, "pclmul", 6)) c |= 1u << ISA_INFO_PCLMUL;
	if (mn[0] == 'k' && kreg) {   /* opmask instructions are VEX encoded */
		size_t l = strlen(mn);
		c |= (1u << ISA_AVX512F) | (1u << ISA_ZMM_STATE);
		if (mn[l - 1] == 'd' || mn[l - 1] == 'q') c |= 1u << ISA_AVX512BW;
		if (mn[l - 1] == 'b') c |= 1u << ISA_AVX512DQ;
		return c;
	}
	if (evex) {
		static const char *const bw[] = { "vmovdqu8", "vmovdqu16", "vpshufb", "vpalignr", "vpaddb", "vpaddw", "vpsubb", "vpsubw", "vpcmpeqb", "vpcmpeqw", "vpcmpb", "vpcmpub", "vpcmpw", "vpcmpuw",
			"vpcmpgtb", "vpcmpgtw", "vptestmb", "vptestmw", "vptestnmb", "vptestnmw", "vpbroadcastb", "vpbroadcastw", "vpblendmb", "vpblendmw", "vpsllw", "vpsrlw", "vpsraw", "vpsllvw", "vpsrlvw", "vpsravw",
			"vpmovm2b", "vpmovm2w", "vpmovb2m", "vpmovw2m", "vpunpcklbw", "vpunpckhbw", "vpunpcklwd", "vpunpckhwd", "vpacksswb", "vpackssdw", "vpackuswb", "vpackusdw", "vpshuflw", "vpshufhw",
			"vpmaddwd", "vpmaddubsw", "vpmullw", "vpmulhw", "vpmulhuw", "vpmulhrsw", "vpsadbw", "vdbpsadbw", "vpermw", "vpermi2w", "vpermt2w", "vpminub", "vpmaxub", "vpminsb", "vpmaxsb", "vpminuw", "vpmaxuw", "vpminsw", "vpmaxsw",
			"vpslldq", "vpsrldq", "vpextrb", "vpextrw", "vpinsrb", "vpinsrw", "vpabsb", "vpabsw", "vpavgb", "vpavgw", "vpaddsb", "vpaddsw", "vpaddusb", "vpaddusw", "vpsubsb", "vpsubsw", "vpsubusb", "vpsubusw", "vpmovwb", "vpmovzxbw", "vpmovsxbw", NULL };
		static const char *const dq[] = { "vpmullq", "vpextrd", "vpextrq", "vpinsrd", "vpinsrq", "vinserti32x8", "vinserti64x2", "vinsertf32x8", "vinsertf64x2", "vextracti32x8", "vextracti64x2", "vextractf32x8", "vextractf64x2",
			"vbroadcasti32x2", "vbroadcasti32x8", "vbroadcasti64x2", "vbroadcastf32x2", "vbroadcastf32x8", "vbroadcastf64x2", "vpmovm2d", "vpmovm2q", "vpmovd2m", "vpmovq2m", "vandps", "vandpd", "vandnps", "vandnpd", "vorps", "vorpd", "vxorps", "vxorpd", NULL };
		static const char *const cd[] = { "vpconflictd", "vpconflictq", "vplzcntd", "vplzcntq", "vpbroadcastmb2q", "vpbroadcastmw2d", NULL };
		static const char *const vbmi2[] = { "vpcompressb", "vpcompressw", "vpexpandb", "vpexpandw", "vpshldw", "vpshldd", "vpshldq", "vpshldvw", "vpshldvd", "vpshldvq", "vpshrdw", "vpshrdd", "vpshrdq", "vpshrdvw", "vpshrdvd", "vpshrdvq", NULL };
		static const char *const vnni[] = { "vpdpbusd", "vpdpbusds", "vpdpwssd", "vpdpwssds", NULL };
		static const char *const bitalg[] = { "vpopcntb", "vpopcntw", "vpshufbitqmb", NULL };
		static const char *const popc[] = { "vpopcntd", "vpopcntq", NULL };
		size_t l = strlen(mn);
		int scalar = l > 2 && mn[l - 2] == 's' && (mn[l - 1] == 's' || mn[l - 1] == 'd');
		c |= 1u << ISA_AVX512F;
		if (ll == 2 || zmm) c |= 1u << ISA_ZMM_STATE;
		else if (!scalar) c |= 1u << ISA_AVX512VL;
		if (kreg) c |= 1u << ISA_ZMM_STATE;
		if (ymm) c |= 1u << ISA_YMM_STATE;
		if (mn_in(mn, bw)) c |= 1u << ISA_AVX512BW;
		if (mn_in(mn, dq)) c |= 1u << ISA_AVX512DQ;
		if (mn_in(mn, cd)) c |= 1u << ISA_AVX512CD;
		if (mn_in(mn, vbmi2)) c |= 1u << ISA_VBMI2;
		if (mn_in(mn, vnni)) c |= 1u << ISA_VNNI;
		if (mn_in(mn, bitalg)) c |= 1u << ISA_BITALG;
		if (mn_in(mn, popc)) c |= 1u << ISA_VPOPCNTDQ;
		if (!strncmp(mn, "vaes", 4)) c |= 1u << ISA_VAES;
		if (!strcmp(mn, "vpclmulqdq")) c |= 1u << ISA_VPCLMULQDQ;
		return c;
	}
	if (vex) {
		static const char *const avx2x[] = { "vpbroadcastb", "vpbroadcastw", "vpbroadcastd", "vpbroadcastq", "vpsllvd", "vpsllvq", "vpsrlvd", "vpsrlvq", "vpsravd", "vpblendd", "vpermd", "vpermq", "vpermps", "vpermpd",
			"vpmaskmovd", "vpmaskmovq", "vinserti128", "vextracti128", "vbroadcasti128", "vperm2i128", "vpgatherdd", "vpgatherdq", "vpgatherqd", "vpgatherqq", NULL };
		static const char *const avxonly[] = { "vpermilps", "vpermilpd", "vperm2f128", "vptest", NULL };
		c |= 1u << ISA_AVX;
		if (ymm || ll) c |= 1u << ISA_YMM_STATE;
		if (mn_in(mn, avx2x)) c |= 1u << ISA_AVX2;
		else if (ymm && mn[1] == 'p' && !mn_in(mn, avxonly)) c |= 1u << ISA_AVX2;
		else if (ymm && !strcmp(mn, "vmovntdqa")) c |= 1u << ISA_AVX2;
		if (!strncmp(mn, "vaes", 4) && ymm) c |= 1u << ISA_VAES;
		if (!strcmp(mn, "vpclmulqdq") && ymm) c |= 1u << ISA_VPCLMULQDQ;
		return c;
	}
	{
		static const char *const sse41[] = { "pblendw", "pblendvb", "pinsrb", "pinsrd", "pinsrq", "pextrb", "pextrd", "pextrq", "ptest", "pmulld", "pminsb", "pmaxsb", "pminuw", "pmaxuw", "pminud", "pmaxud", "pminsd", "pmaxsd",
			"pcmpeqq", "packusdw", "roundps", "roundpd", "roundss", "roundsd", "dpps", "dppd", "insertps", "extractps", "blendps", "blendpd", "blendvps", "blendvpd", "movntdqa", "mpsadbw", "phminposuw", "pmuldq",
			"pmovzxbw", "pmovzxbd", "pmovzxbq", "pmovzxwd", "pmovzxwq", "pmovzxdq", "pmovsxbw", "pmovsxbd", "pmovsxbq", "pmovsxwd", "pmovsxwq", "pmovsxdq", NULL };
		static const char *const sse42[] = { "pcmpgtq", "crc32b", "crc32w", "crc32l", "crc32q", "crc32", "pcmpestri", "pcmpestrm", "pcmpistri", "pcmpistrm", NULL };
		static const char *const ssse3[] = { "pshufb", "palignr", "pabsb", "pabsw", "pabsd", "phaddw", "phaddd", "phaddsw", "phsubw", "phsubd", "phsubsw", "pmaddubsw", "pmulhrsw", "psignb", "psignw", "psignd", NULL };
		if (mn_in(mn, sse41)) c |= 1u << ISA_SSE41;
		if (mn_in(mn, sse42)) c |= 1u << ISA_SSE42;
		if (mn_in(mn, ssse3)) c |= 1u << ISA_INFO_SSSE3;
	}
	return c;
}
static int cmp_u64(const void *a, const void *b) { uint64_t x = *(const uint64_t *)a, y = *(const uint64_t *)b; return x < y ? -1 : x > y; }
void vk_trace_finish(void)
{
	if (!vk_trace_on || !tr_n) return;
	/* unique executed addresses */
	uint64_t *addrs = malloc(tr_n * 8); size_t na = 0;
	for (size_t j = 0; j < tr_cap; j++) if (tr_set[j]) addrs[na++] = tr_set[j] & 0xffffffffffull;
	qsort(addrs, na, 8, cmp_u64);
	size_t nu = 0; for (size_t i = 0; i < na; i++) if (!nu || addrs[nu - 1] != addrs[i]) addrs[nu++] = addrs[i];
	uint32_t *cls = calloc(nu, 4);
	char cmd[256];
	snprintf(cmd, sizeof cmd, "objdump -d -w --no-show-raw-insn --start-address=0x%lx --stop-address=0x%lx /proc/%d/exe", (unsigned long)tr_lo, (unsigned long)tr_hi, getpid());
	FILE *f = popen(cmd, "r");
	char line[512]; size_t decoded = 0;
	while (f && fgets(line, sizeof line, f)) {
		char *p = line; while (*p == ' ') p++;
		char *e; unsigned long a = strtoul(p, &e, 16);
		if (e == p || *e != ':') continue;
		e++; while (*e == ' ' || *e == '\t') e++;
		uint64_t off = a - tr_lo;
		uint64_t *hit = bsearch(&off, addrs, nu, 8, cmp_u64);
		if (!hit) continue;
		size_t l = strlen(e); while (l && (e[l - 1] == '\n' || e[l - 1] == ' ')) e[--l] = 0;
		cls[hit - addrs] = classify(a, e) | 0x80000000u;
		decoded++;
	}
	if (f) pclose(f);
	/* per function name */
	for (int n = 0; n < tr_nnames; n++) {
		uint32_t c = 0; size_t cnt = 0, undec = 0;
		for (size_t j = 0; j < tr_cap; j++) if (tr_set[j] && ((tr_set[j] >> 40) & 0x7fffff) == (uint64_t)n) {
			uint64_t off = tr_set[j] & 0xffffffffffull;
			uint64_t *hit = bsearch(&off, addrs, nu, 8, cmp_u64);
			cnt++;
			if (hit && (cls[hit - addrs] & 0x80000000u)) c |= cls[hit - addrs] & 0x7fffffffu; else undec++;
		}
		if (!cnt) continue;
		char list[512] = ""; int o = 0;
		for (int b = 0; b < ISA_NCLASS; b++) if (c & (1u << b)) o += snprintf(list + o, sizeof list - o, "%s\"%s\"", o ? "," : "", vk_isa_names[b]);
		vk_emit("{\"type\":\"isa\",\"fn\":\"%s\",\"mask\":%u,\"classes\":[%s],\"insns\":%zu,\"undecoded\":%zu}", tr_names[n], c, list, cnt, undec);
	}
	vk_emit("{\"type\":\"stat\",\"name\":\"single_step_traps\",\"value\":%llu,\"max\":0}", (unsigned long long)tr_traps);
	vk_emit("{\"type\":\"stat\",\"name\":\"traced_instruction_addresses\",\"value\":%zu,\"max\":0}", nu);
	free(addrs); free(cls);
}

static void vk_install_trap_handler(void)
{
	struct sigaction sa;
	memset(&sa, 0, sizeof sa);
	sa.sa_sigaction = on_trap; sa.sa_flags = SA_SIGINFO | SA_ONSTACK;
	sigemptyset(&sa.sa_mask);
	sigaction(SIGTRAP, &sa, NULL);
}
void vk_wtrap_finish(void)
{
	if (!vk_wtrap_on) return;
	wt_protect(0);
	vk_stat("static_writes_by_library_code", wt_library_writes);
	vk_stat("static_writes_by_harness", wt_harness_writes);
	for (int i = 0; i < wt_n; i++) {
		uintptr_t off = 0; const char *sn = vk_sym_at(wt_log[i].addr, &off);
		char rp[160]; vk_describe_rip(wt_log[i].rip, rp, sizeof rp);
		size_t l = sn ? strlen(sn) : 0;
		int allowed = sn && off < 8 && ((l > 11 && !strcmp(sn + l - 11, "_dispatched")) || !strcmp(sn, "self_test_status"));
		vk_distinct("written_statics", wt_log[i].addr);
		if (allowed) { vk_stat("writes_to_allowed_statics", wt_log[i].n); continue; }
		/* not a global symbol start: ask nm for the nearest (possibly local) symbol */
		char local[128] = "", cmd[128]; snprintf(cmd, sizeof cmd, "nm -n /proc/%d/exe", getpid());
		FILE *f = popen(cmd, "r"); char line[256];
		while (f && fgets(line, sizeof line, f)) {
			unsigned long a = 0; char ty = 0, nm[160];
			if (sscanf(line, "%lx %c %159s", &a, &ty, nm) != 3) continue;
			if (a > wt_log[i].addr) break;
			if (ty == 'd' || ty == 'D' || ty == 'b' || ty == 'B') snprintf(local, sizeof local, "%s+0x%lx", nm, (unsigned long)(wt_log[i].addr - a));
		}
		if (f) pclose(f);
		char key[200]; snprintf(key, sizeof key, "static_write:%s", local[0] ? local : (sn ? sn : "?"));
		for (char *c = key; *c; c++) if (*c == '+') { *c = 0; break; }
		vk_violation("C18", key, NULL, "library code at %s writes to static storage %s (%llu stores): writable static state other than the dispatch bindings and the self-test verdict", rp, local[0] ? local : (sn ? sn : "?"), (unsigned long long)wt_log[i].n);
	}
}
