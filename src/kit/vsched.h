/* vsched - serialising scheduler + explorer for real threads (see vsched.c) */
#ifndef VSCHED_H
#define VSCHED_H
#include <stdint.h>
#include <stddef.h>
#define VS_MAXT 4
#define VS_MAXPTS 512
#define VS_MAXEV 4096
enum { VS_EV_ACCESS = 1, VS_EV_ACCESS_VAL = 2, VS_EV_USER = 100 };
struct vs_event { int tid, kind; int64_t v; };
struct vs_config {
	int nthreads;
	void (*body[VS_MAXT])(int tid, void *arg); void *arg[VS_MAXT];
	int naddrs; uintptr_t addrs[80]; unsigned addr_size[80];   /* mutable library statics: every access is a scheduling point; only their pages are protected */
	void (*reset)(void);                  /* put library + harness into the initial state (runs unprotected) */
	int (*check)(char *msg, size_t n);    /* oracle on a complete execution: nonzero = violation */
	uint64_t (*state_extra)(void);        /* shared words + oracle counters for the canonical state */
	int (*value_changed)(void);
	void (*unstick)(void);                /* break spin loops when an execution is abandoned */
	int preempt_bound;                    /* -1 = unbounded */
	int max_points, max_executions, keep_going;
};
struct vs_stats { uint64_t executions, points, states, transitions, pruned, bounded_out, violating_executions, nondeterministic, replay_divergence; int max_points_seen, capped; };
int vs_explore(struct vs_config *cfg, struct vs_stats *out, char *msg, size_t msgn, int8_t *sched, int *schedlen);
int vs_replay(struct vs_config *cfg, const int8_t *sched, int len, char *msg, size_t msgn);
void vs_event(int kind, int64_t v);       /* record an event from a thread body or shim */
void vs_point(const char *what, int64_t v); /* explicit scheduling point */
int vs_nevents(void); const struct vs_event *vs_events(void);
#endif
