/* Reference implementations from the standards (FIPS 180-4, RFC 1321, GB/T 32905, FIPS-197,
 * SP 800-38A/D, IEEE 1619, MurmurHash3). Slow and obvious on purpose. */
#include "ref.h"
#include <string.h>
#include <stdlib.h>

static inline uint32_t rol32(uint32_t x, int r) { return (x << r) | (x >> (32 - r)); }
static inline uint32_t ror32(uint32_t x, int r) { return (x >> r) | (x << (32 - r)); }
static inline uint64_t ror64(uint64_t x, int r) { return (x >> r) | (x << (64 - r)); }
static inline uint64_t rol64(uint64_t x, int r) { return (x << r) | (x >> (64 - r)); }
static uint32_t be32(const uint8_t *p) { return ((uint32_t)p[0] << 24) | (p[1] << 16) | (p[2] << 8) | p[3]; }
static uint32_t le32(const uint8_t *p) { return ((uint32_t)p[3] << 24) | (p[2] << 16) | (p[1] << 8) | p[0]; }
static uint64_t be64(const uint8_t *p) { return ((uint64_t)be32(p) << 32) | be32(p + 4); }
static void put_be32(uint8_t *p, uint32_t v) { p[0] = v >> 24; p[1] = v >> 16; p[2] = v >> 8; p[3] = v; }
static void put_le32(uint8_t *p, uint32_t v) { p[3] = v >> 24; p[2] = v >> 16; p[1] = v >> 8; p[0] = v; }
static void put_be64(uint8_t *p, uint64_t v) { put_be32(p, v >> 32); put_be32(p + 4, (uint32_t)v); }
static void put_le64(uint8_t *p, uint64_t v) { put_le32(p, (uint32_t)v); put_le32(p + 4, v >> 32); }

/* ---------------- SHA-1 ---------------- */
static void sha1_block(uint32_t h[5], const uint8_t *p)
{
	uint32_t w[80], a, b, c, d, e, f, k, t;
	for (int i = 0; i < 16; i++) w[i] = be32(p + 4 * i);
	for (int i = 16; i < 80; i++) w[i] = rol32(w[i - 3] ^ w[i - 8] ^ w[i - 14] ^ w[i - 16], 1);
	a = h[0]; b = h[1]; c = h[2]; d = h[3]; e = h[4];
	for (int i = 0; i < 80; i++) {
		if (i < 20) { f = (b & c) | (~b & d); k = 0x5a827999; }
		else if (i < 40) { f = b ^ c ^ d; k = 0x6ed9eba1; }
		else if (i < 60) { f = (b & c) | (b & d) | (c & d); k = 0x8f1bbcdc; }
		else { f = b ^ c ^ d; k = 0xca62c1d6; }
		t = rol32(a, 5) + f + e + k + w[i];
		e = d; d = c; c = rol32(b, 30); b = a; a = t;
	}
	h[0] += a; h[1] += b; h[2] += c; h[3] += d; h[4] += e;
}
void ref_sha1_blocks(uint32_t h[5], const uint8_t *p, size_t n) { while (n--) { sha1_block(h, p); p += 64; } }

/* ---------------- SHA-256 ---------------- */
static const uint32_t K256[64] = {
	0x428a2f98, 0x71374491, 0xb5c0fbcf, 0xe9b5dba5, 0x3956c25b, 0x59f111f1, 0x923f82a4, 0xab1c5ed5,
	0xd807aa98, 0x12835b01, 0x243185be, 0x550c7dc3, 0x72be5d74, 0x80deb1fe, 0x9bdc06a7, 0xc19bf174,
	0xe49b69c1, 0xefbe4786, 0x0fc19dc6, 0x240ca1cc, 0x2de92c6f, 0x4a7484aa, 0x5cb0a9dc, 0x76f988da,
	0x983e5152, 0xa831c66d, 0xb00327c8, 0xbf597fc7, 0xc6e00bf3, 0xd5a79147, 0x06ca6351, 0x14292967,
	0x27b70a85, 0x2e1b2138, 0x4d2c6dfc, 0x53380d13, 0x650a7354, 0x766a0abb, 0x81c2c92e, 0x92722c85,
	0xa2bfe8a1, 0xa81a664b, 0xc24b8b70, 0xc76c51a3, 0xd192e819, 0xd6990624, 0xf40e3585, 0x106aa070,
	0x19a4c116, 0x1e376c08, 0x2748774c, 0x34b0bcb5, 0x391c0cb3, 0x4ed8aa4a, 0x5b9cca4f, 0x682e6ff3,
	0x748f82ee, 0x78a5636f, 0x84c87814, 0x8cc70208, 0x90befffa, 0xa4506ceb, 0xbef9a3f7, 0xc67178f2 };
static void sha256_block(uint32_t h[8], const uint8_t *p)
{
	uint32_t w[64], s[8];
	for (int i = 0; i < 16; i++) w[i] = be32(p + 4 * i);
	for (int i = 16; i < 64; i++) {
		uint32_t s0 = ror32(w[i - 15], 7) ^ ror32(w[i - 15], 18) ^ (w[i - 15] >> 3);
		uint32_t s1 = ror32(w[i - 2], 17) ^ ror32(w[i - 2], 19) ^ (w[i - 2] >> 10);
		w[i] = w[i - 16] + s0 + w[i - 7] + s1;
	}
	memcpy(s, h, 32);
	for (int i = 0; i < 64; i++) {
		uint32_t S1 = ror32(s[4], 6) ^ ror32(s[4], 11) ^ ror32(s[4], 25);
		uint32_t ch = (s[4] & s[5]) ^ (~s[4] & s[6]);
		uint32_t t1 = s[7] + S1 + ch + K256[i] + w[i];
		uint32_t S0 = ror32(s[0], 2) ^ ror32(s[0], 13) ^ ror32(s[0], 22);
		uint32_t mj = (s[0] & s[1]) ^ (s[0] & s[2]) ^ (s[1] & s[2]);
		uint32_t t2 = S0 + mj;
		s[7] = s[6]; s[6] = s[5]; s[5] = s[4]; s[4] = s[3] + t1;
		s[3] = s[2]; s[2] = s[1]; s[1] = s[0]; s[0] = t1 + t2;
	}
	for (int i = 0; i < 8; i++) h[i] += s[i];
}
void ref_sha256_blocks(uint32_t h[8], const uint8_t *p, size_t n) { while (n--) { sha256_block(h, p); p += 64; } }

/* ---------------- SHA-512 ---------------- */
static const uint64_t K512[80] = {
	0x428a2f98d728ae22ULL, 0x7137449123ef65cdULL, 0xb5c0fbcfec4d3b2fULL, 0xe9b5dba58189dbbcULL,
	0x3956c25bf348b538ULL, 0x59f111f1b605d019ULL, 0x923f82a4af194f9bULL, 0xab1c5ed5da6d8118ULL,
	0xd807aa98a3030242ULL, 0x12835b0145706fbeULL, 0x243185be4ee4b28cULL, 0x550c7dc3d5ffb4e2ULL,
	0x72be5d74f27b896fULL, 0x80deb1fe3b1696b1ULL, 0x9bdc06a725c71235ULL, 0xc19bf174cf692694ULL,
	0xe49b69c19ef14ad2ULL, 0xefbe4786384f25e3ULL, 0x0fc19dc68b8cd5b5ULL, 0x240ca1cc77ac9c65ULL,
	0x2de92c6f592b0275ULL, 0x4a7484aa6ea6e483ULL, 0x5cb0a9dcbd41fbd4ULL, 0x76f988da831153b5ULL,
	0x983e5152ee66dfabULL, 0xa831c66d2db43210ULL, 0xb00327c898fb213fULL, 0xbf597fc7beef0ee4ULL,
	0xc6e00bf33da88fc2ULL, 0xd5a79147930aa725ULL, 0x06ca6351e003826fULL, 0x142929670a0e6e70ULL,
	0x27b70a8546d22ffcULL, 0x2e1b21385c26c926ULL, 0x4d2c6dfc5ac42aedULL, 0x53380d139d95b3dfULL,
	0x650a73548baf63deULL, 0x766a0abb3c77b2a8ULL, 0x81c2c92e47edaee6ULL, 0x92722c851482353bULL,
	0xa2bfe8a14cf10364ULL, 0xa81a664bbc423001ULL, 0xc24b8b70d0f89791ULL, 0xc76c51a30654be30ULL,
	0xd192e819d6ef5218ULL, 0xd69906245565a910ULL, 0xf40e35855771202aULL, 0x106aa07032bbd1b8ULL,
	0x19a4c116b8d2d0c8ULL, 0x1e376c085141ab53ULL, 0x2748774cdf8eeb99ULL, 0x34b0bcb5e19b48a8ULL,
	0x391c0cb3c5c95a63ULL, 0x4ed8aa4ae3418acbULL, 0x5b9cca4f7763e373ULL, 0x682e6ff3d6b2b8a3ULL,
	0x748f82ee5defb2fcULL, 0x78a5636f43172f60ULL, 0x84c87814a1f0ab72ULL, 0x8cc702081a6439ecULL,
	0x90befffa23631e28ULL, 0xa4506cebde82bde9ULL, 0xbef9a3f7b2c67915ULL, 0xc67178f2e372532bULL,
	0xca273eceea26619cULL, 0xd186b8c721c0c207ULL, 0xeada7dd6cde0eb1eULL, 0xf57d4f7fee6ed178ULL,
	0x06f067aa72176fbaULL, 0x0a637dc5a2c898a6ULL, 0x113f9804bef90daeULL, 0x1b710b35131c471bULL,
	0x28db77f523047d84ULL, 0x32caab7b40c72493ULL, 0x3c9ebe0a15c9bebcULL, 0x431d67c49c100d4cULL,
	0x4cc5d4becb3e42b6ULL, 0x597f299cfc657e2aULL, 0x5fcb6fab3ad6faecULL, 0x6c44198c4a475817ULL };
static void sha512_block(uint64_t h[8], const uint8_t *p)
{
	uint64_t w[80], s[8];
	for (int i = 0; i < 16; i++) w[i] = be64(p + 8 * i);
	for (int i = 16; i < 80; i++) {
		uint64_t s0 = ror64(w[i - 15], 1) ^ ror64(w[i - 15], 8) ^ (w[i - 15] >> 7);
		uint64_t s1 = ror64(w[i - 2], 19) ^ ror64(w[i - 2], 61) ^ (w[i - 2] >> 6);
		w[i] = w[i - 16] + s0 + w[i - 7] + s1;
	}
	memcpy(s, h, 64);
	for (int i = 0; i < 80; i++) {
		uint64_t S1 = ror64(s[4], 14) ^ ror64(s[4], 18) ^ ror64(s[4], 41);
		uint64_t ch = (s[4] & s[5]) ^ (~s[4] & s[6]);
		uint64_t t1 = s[7] + S1 + ch + K512[i] + w[i];
		uint64_t S0 = ror64(s[0], 28) ^ ror64(s[0], 34) ^ ror64(s[0], 39);
		uint64_t mj = (s[0] & s[1]) ^ (s[0] & s[2]) ^ (s[1] & s[2]);
		uint64_t t2 = S0 + mj;
		s[7] = s[6]; s[6] = s[5]; s[5] = s[4]; s[4] = s[3] + t1;
		s[3] = s[2]; s[2] = s[1]; s[1] = s[0]; s[0] = t1 + t2;
	}
	for (int i = 0; i < 8; i++) h[i] += s[i];
}

/* ---------------- MD5 ---------------- */
static const uint32_t MD5K[64] = {
	0xd76aa478, 0xe8c7b756, 0x242070db, 0xc1bdceee, 0xf57c0faf, 0x4787c62a, 0xa8304613, 0xfd469501,
	0x698098d8, 0x8b44f7af, 0xffff5bb1, 0x895cd7be, 0x6b901122, 0xfd987193, 0xa679438e, 0x49b40821,
	0xf61e2562, 0xc040b340, 0x265e5a51, 0xe9b6c7aa, 0xd62f105d, 0x02441453, 0xd8a1e681, 0xe7d3fbc8,
	0x21e1cde6, 0xc33707d6, 0xf4d50d87, 0x455a14ed, 0xa9e3e905, 0xfcefa3f8, 0x676f02d9, 0x8d2a4c8a,
	0xfffa3942, 0x8771f681, 0x6d9d6122, 0xfde5380c, 0xa4beea44, 0x4bdecfa9, 0xf6bb4b60, 0xbebfbc70,
	0x289b7ec6, 0xeaa127fa, 0xd4ef3085, 0x04881d05, 0xd9d4d039, 0xe6db99e5, 0x1fa27cf8, 0xc4ac5665,
	0xf4292244, 0x432aff97, 0xab9423a7, 0xfc93a039, 0x655b59c3, 0x8f0ccc92, 0xffeff47d, 0x85845dd1,
	0x6fa87e4f, 0xfe2ce6e0, 0xa3014314, 0x4e0811a1, 0xf7537e82, 0xbd3af235, 0x2ad7d2bb, 0xeb86d391 };
static const int MD5S[64] = { 7, 12, 17, 22, 7, 12, 17, 22, 7, 12, 17, 22, 7, 12, 17, 22,
	5, 9, 14, 20, 5, 9, 14, 20, 5, 9, 14, 20, 5, 9, 14, 20,
	4, 11, 16, 23, 4, 11, 16, 23, 4, 11, 16, 23, 4, 11, 16, 23,
	6, 10, 15, 21, 6, 10, 15, 21, 6, 10, 15, 21, 6, 10, 15, 21 };
static void md5_block(uint32_t h[4], const uint8_t *p)
{
	uint32_t m[16], a = h[0], b = h[1], c = h[2], d = h[3];
	for (int i = 0; i < 16; i++) m[i] = le32(p + 4 * i);
	for (int i = 0; i < 64; i++) {
		uint32_t f; int g;
		if (i < 16) { f = (b & c) | (~b & d); g = i; }
		else if (i < 32) { f = (d & b) | (~d & c); g = (5 * i + 1) & 15; }
		else if (i < 48) { f = b ^ c ^ d; g = (3 * i + 5) & 15; }
		else { f = c ^ (b | ~d); g = (7 * i) & 15; }
		f = f + a + MD5K[i] + m[g];
		a = d; d = c; c = b; b = b + rol32(f, MD5S[i]);
	}
	h[0] += a; h[1] += b; h[2] += c; h[3] += d;
}

/* ---------------- SM3 ---------------- */
static uint32_t sm3_p0(uint32_t x) { return x ^ rol32(x, 9) ^ rol32(x, 17); }
static uint32_t sm3_p1(uint32_t x) { return x ^ rol32(x, 15) ^ rol32(x, 23); }
static void sm3_block(uint32_t v[8], const uint8_t *p)
{
	uint32_t w[68], w1[64], a, b, c, d, e, f, g, h;
	for (int i = 0; i < 16; i++) w[i] = be32(p + 4 * i);
	for (int i = 16; i < 68; i++)
		w[i] = sm3_p1(w[i - 16] ^ w[i - 9] ^ rol32(w[i - 3], 15)) ^ rol32(w[i - 13], 7) ^ w[i - 6];
	for (int i = 0; i < 64; i++) w1[i] = w[i] ^ w[i + 4];
	a = v[0]; b = v[1]; c = v[2]; d = v[3]; e = v[4]; f = v[5]; g = v[6]; h = v[7];
	for (int j = 0; j < 64; j++) {
		uint32_t t = j < 16 ? 0x79cc4519 : 0x7a879d8a;
		uint32_t ss1 = rol32(rol32(a, 12) + e + ((j % 32) ? rol32(t, j % 32) : t), 7);
		uint32_t ss2 = ss1 ^ rol32(a, 12);
		uint32_t ff = j < 16 ? (a ^ b ^ c) : ((a & b) | (a & c) | (b & c));
		uint32_t gg = j < 16 ? (e ^ f ^ g) : ((e & f) | (~e & g));
		uint32_t tt1 = ff + d + ss2 + w1[j];
		uint32_t tt2 = gg + h + ss1 + w[j];
		d = c; c = rol32(b, 9); b = a; a = tt1;
		h = g; g = rol32(f, 19); f = e; e = sm3_p0(tt2);
	}
	v[0] ^= a; v[1] ^= b; v[2] ^= c; v[3] ^= d; v[4] ^= e; v[5] ^= f; v[6] ^= g; v[7] ^= h;
}

/* ---------------- generic incremental wrapper ---------------- */
unsigned ref_hash_block(enum ref_alg a) { return a == REF_SHA512 ? 128 : 64; }
unsigned ref_hash_words(enum ref_alg a) { return a == REF_SHA1 ? 5 : a == REF_MD5 ? 4 : 8; }
unsigned ref_hash_wordsize(enum ref_alg a) { return a == REF_SHA512 ? 8 : 4; }
unsigned ref_hash_dlen(enum ref_alg a) { return ref_hash_words(a) * ref_hash_wordsize(a); }

void ref_hash_init(ref_hash *c, enum ref_alg a)
{
	static const uint32_t i1[5] = { 0x67452301, 0xefcdab89, 0x98badcfe, 0x10325476, 0xc3d2e1f0 };
	static const uint32_t i256[8] = { 0x6a09e667, 0xbb67ae85, 0x3c6ef372, 0xa54ff53a, 0x510e527f, 0x9b05688c, 0x1f83d9ab, 0x5be0cd19 };
	static const uint64_t i512[8] = { 0x6a09e667f3bcc908ULL, 0xbb67ae8584caa73bULL, 0x3c6ef372fe94f82bULL, 0xa54ff53a5f1d36f1ULL,
		0x510e527fade682d1ULL, 0x9b05688c2b3e6c1fULL, 0x1f83d9abfb41bd6bULL, 0x5be0cd19137e2179ULL };
	static const uint32_t isu[8] = { 0x7380166f, 0x4914b2b9, 0x172442d7, 0xda8a0600, 0xa96f30bc, 0x163138aa, 0xe38dee4d, 0xb0fb0e4e };
	memset(c, 0, sizeof *c);
	c->alg = a;
	switch (a) {
	case REF_SHA1: for (int i = 0; i < 5; i++) c->h[i] = i1[i]; break;
	case REF_MD5: for (int i = 0; i < 4; i++) c->h[i] = i1[i]; break;
	case REF_SHA256: for (int i = 0; i < 8; i++) c->h[i] = i256[i]; break;
	case REF_SHA512: for (int i = 0; i < 8; i++) c->h[i] = i512[i]; break;
	case REF_SM3: for (int i = 0; i < 8; i++) c->h[i] = isu[i]; break;
	default: abort();
	}
}
static void hash_block(ref_hash *c, const uint8_t *p)
{
	uint32_t h32[8];
	if (c->alg == REF_SHA512) { sha512_block(c->h, p); return; }
	for (int i = 0; i < 8; i++) h32[i] = (uint32_t)c->h[i];
	switch (c->alg) {
	case REF_SHA1: sha1_block(h32, p); break;
	case REF_SHA256: sha256_block(h32, p); break;
	case REF_MD5: md5_block(h32, p); break;
	case REF_SM3: sm3_block(h32, p); break;
	default: abort();
	}
	for (int i = 0; i < 8; i++) c->h[i] = h32[i];
}
void ref_hash_update(ref_hash *c, const void *data, size_t len)
{
	const uint8_t *p = data;
	unsigned B = ref_hash_block(c->alg);
	c->total += len;
	while (len) {
		size_t n = B - c->buflen;
		if (n > len) n = len;
		memcpy(c->buf + c->buflen, p, n);
		c->buflen += n; p += n; len -= n;
		if (c->buflen == B) { hash_block(c, c->buf); c->buflen = 0; }
	}
}
void ref_hash_final(const ref_hash *c0, uint64_t len_offset, uint8_t *out)
{
	ref_hash c = *c0;
	unsigned B = ref_hash_block(c.alg), lf = (c.alg == REF_SHA512) ? 16 : 8;
	uint64_t total = c.total + len_offset;   /* bytes */
	uint8_t pad[256];
	unsigned n = 0;
	pad[n++] = 0x80;
	while ((c.buflen + n) % B != B - lf) pad[n++] = 0;
	if (c.alg == REF_SHA512) { /* 128-bit big-endian bit length */
		put_be64(pad + n, total >> 61); put_be64(pad + n + 8, total << 3); n += 16;
	} else if (c.alg == REF_MD5) { put_le64(pad + n, total << 3); n += 8; }
	else { put_be64(pad + n, total << 3); n += 8; }
	ref_hash_update(&c, pad, n);
	for (unsigned i = 0; i < ref_hash_words(c.alg); i++) {
		if (c.alg == REF_SHA512) put_be64(out + 8 * i, c.h[i]);
		else if (c.alg == REF_MD5) put_le32(out + 4 * i, (uint32_t)c.h[i]);
		else put_be32(out + 4 * i, (uint32_t)c.h[i]);
	}
}
void ref_hash_oneshot(enum ref_alg a, const void *d, size_t n, uint8_t *out)
{
	ref_hash c; ref_hash_init(&c, a); ref_hash_update(&c, d, n); ref_hash_final(&c, 0, out);
}

/* ---------------- AES (FIPS-197) ---------------- */
static uint8_t sbox[256], inv_sbox[256];
static int aes_tables_done;
static uint8_t xtime(uint8_t x) { return (x << 1) ^ ((x & 0x80) ? 0x1b : 0); }
static uint8_t gmul(uint8_t a, uint8_t b)
{
	uint8_t r = 0;
	while (b) { if (b & 1) r ^= a; a = xtime(a); b >>= 1; }
	return r;
}
static void aes_tables(void)
{
	if (aes_tables_done) return;
	/* multiplicative inverse by brute force, then the affine map */
	for (int x = 0; x < 256; x++) {
		uint8_t inv = 0;
		if (x) for (int y = 1; y < 256; y++) if (gmul(x, y) == 1) { inv = y; break; }
		uint8_t s = inv, r = inv;
		for (int i = 0; i < 4; i++) { r = (r << 1) | (r >> 7); s ^= r; }
		s ^= 0x63;
		sbox[x] = s; inv_sbox[s] = x;
	}
	aes_tables_done = 1;
}
void ref_aes_expand(ref_aes_key *k, const uint8_t *key, int keybits)
{
	aes_tables();
	int nk = keybits / 32, nr = nk + 6;
	uint8_t w[60][4];
	uint8_t rcon = 1;
	k->nr = nr;
	for (int i = 0; i < nk; i++) memcpy(w[i], key + 4 * i, 4);
	for (int i = nk; i < 4 * (nr + 1); i++) {
		uint8_t t[4];
		memcpy(t, w[i - 1], 4);
		if (i % nk == 0) {
			uint8_t x = t[0];
			t[0] = sbox[t[1]] ^ rcon; t[1] = sbox[t[2]]; t[2] = sbox[t[3]]; t[3] = sbox[x];
			rcon = xtime(rcon);
		} else if (nk > 6 && i % nk == 4) {
			for (int j = 0; j < 4; j++) t[j] = sbox[t[j]];
		}
		for (int j = 0; j < 4; j++) w[i][j] = w[i - nk][j] ^ t[j];
	}
	memset(k->rk, 0, sizeof k->rk);
	for (int r = 0; r <= nr; r++) memcpy(k->rk[r], w[4 * r], 16);
}
static void sub_bytes(uint8_t s[16], const uint8_t *box) { for (int i = 0; i < 16; i++) s[i] = box[s[i]]; }
static void shift_rows(uint8_t s[16])
{
	uint8_t t[16];
	for (int c = 0; c < 4; c++) for (int r = 0; r < 4; r++) t[4 * c + r] = s[4 * ((c + r) & 3) + r];
	memcpy(s, t, 16);
}
static void inv_shift_rows(uint8_t s[16])
{
	uint8_t t[16];
	for (int c = 0; c < 4; c++) for (int r = 0; r < 4; r++) t[4 * ((c + r) & 3) + r] = s[4 * c + r];
	memcpy(s, t, 16);
}
static void mix_columns(uint8_t s[16])
{
	for (int c = 0; c < 4; c++) {
		uint8_t *p = s + 4 * c, a0 = p[0], a1 = p[1], a2 = p[2], a3 = p[3];
		p[0] = gmul(a0, 2) ^ gmul(a1, 3) ^ a2 ^ a3;
		p[1] = a0 ^ gmul(a1, 2) ^ gmul(a2, 3) ^ a3;
		p[2] = a0 ^ a1 ^ gmul(a2, 2) ^ gmul(a3, 3);
		p[3] = gmul(a0, 3) ^ a1 ^ a2 ^ gmul(a3, 2);
	}
}
static void inv_mix_columns(uint8_t s[16])
{
	for (int c = 0; c < 4; c++) {
		uint8_t *p = s + 4 * c, a0 = p[0], a1 = p[1], a2 = p[2], a3 = p[3];
		p[0] = gmul(a0, 14) ^ gmul(a1, 11) ^ gmul(a2, 13) ^ gmul(a3, 9);
		p[1] = gmul(a0, 9) ^ gmul(a1, 14) ^ gmul(a2, 11) ^ gmul(a3, 13);
		p[2] = gmul(a0, 13) ^ gmul(a1, 9) ^ gmul(a2, 14) ^ gmul(a3, 11);
		p[3] = gmul(a0, 11) ^ gmul(a1, 13) ^ gmul(a2, 9) ^ gmul(a3, 14);
	}
}
static void xor16(uint8_t *d, const uint8_t *a) { for (int i = 0; i < 16; i++) d[i] ^= a[i]; }
void ref_aes_dec_schedule(const ref_aes_key *k, uint8_t out[15][16])
{
	memset(out, 0, 15 * 16);
	for (int r = 0; r <= k->nr; r++) {
		memcpy(out[r], k->rk[k->nr - r], 16);
		if (r != 0 && r != k->nr) inv_mix_columns(out[r]);
	}
}
void ref_aes_enc_block(const ref_aes_key *k, const uint8_t in[16], uint8_t out[16])
{
	uint8_t s[16];
	memcpy(s, in, 16);
	xor16(s, k->rk[0]);
	for (int r = 1; r < k->nr; r++) { sub_bytes(s, sbox); shift_rows(s); mix_columns(s); xor16(s, k->rk[r]); }
	sub_bytes(s, sbox); shift_rows(s); xor16(s, k->rk[k->nr]);
	memcpy(out, s, 16);
}
void ref_aes_dec_block(const ref_aes_key *k, const uint8_t in[16], uint8_t out[16])
{
	uint8_t s[16];
	memcpy(s, in, 16);
	xor16(s, k->rk[k->nr]);
	for (int r = k->nr - 1; r >= 1; r--) { inv_shift_rows(s); sub_bytes(s, inv_sbox); xor16(s, k->rk[r]); inv_mix_columns(s); }
	inv_shift_rows(s); sub_bytes(s, inv_sbox); xor16(s, k->rk[0]);
	memcpy(out, s, 16);
}
void ref_cbc_enc(const ref_aes_key *k, const uint8_t iv[16], const uint8_t *in, uint8_t *out, size_t len)
{
	uint8_t c[16];
	memcpy(c, iv, 16);
	for (size_t o = 0; o + 16 <= len; o += 16) {
		xor16(c, in + o); ref_aes_enc_block(k, c, c); memcpy(out + o, c, 16);
	}
}
void ref_cbc_dec(const ref_aes_key *k, const uint8_t iv[16], const uint8_t *in, uint8_t *out, size_t len)
{
	uint8_t prev[16], cur[16], t[16];
	memcpy(prev, iv, 16);
	for (size_t o = 0; o + 16 <= len; o += 16) {
		memcpy(cur, in + o, 16); ref_aes_dec_block(k, cur, t); xor16(t, prev); memcpy(out + o, t, 16); memcpy(prev, cur, 16);
	}
}

/* ---------------- GCM (SP 800-38D), bit-serial GHASH ---------------- */
static void gf128_mul(uint8_t x[16], const uint8_t y[16])
{
	uint8_t z[16] = { 0 }, v[16];
	memcpy(v, y, 16);
	for (int i = 0; i < 128; i++) {
		if (x[i / 8] & (0x80 >> (i % 8))) xor16(z, v);
		int lsb = v[15] & 1;
		for (int j = 15; j > 0; j--) v[j] = (v[j] >> 1) | (v[j - 1] << 7);
		v[0] >>= 1;
		if (lsb) v[0] ^= 0xe1;
	}
	memcpy(x, z, 16);
}
static void ghash_update(uint8_t y[16], const uint8_t h[16], const uint8_t *d, size_t n)
{
	while (n) {
		size_t m = n < 16 ? n : 16;
		for (size_t i = 0; i < m; i++) y[i] ^= d[i];
		gf128_mul(y, h);
		d += m; n -= m;
	}
}
void ref_gcm_hashkey(const ref_aes_key *k, uint8_t h[16])
{
	uint8_t z[16] = { 0 };
	ref_aes_enc_block(k, z, h);
}
static void gcm_core(const ref_aes_key *k, const uint8_t iv[12], const uint8_t *aad, size_t aadlen,
		     const uint8_t *in, uint8_t *out, size_t len, uint8_t tag[16], int dec)
{
	uint8_t h[16], j0[16], ctr[16], ks[16], y[16] = { 0 }, lb[16], ej0[16];
	uint8_t *ct = NULL;
	ref_gcm_hashkey(k, h);
	memcpy(j0, iv, 12); j0[12] = 0; j0[13] = 0; j0[14] = 0; j0[15] = 1;
	memcpy(ctr, j0, 16);
	ghash_update(y, h, aad, aadlen);
	if (dec) ghash_update(y, h, in, len);
	if (in == out && !dec) ct = NULL;
	for (size_t o = 0; o < len; o += 16) {
		uint32_t c = be32(ctr + 12) + 1; put_be32(ctr + 12, c);
		ref_aes_enc_block(k, ctr, ks);
		size_t m = len - o < 16 ? len - o : 16;
		for (size_t i = 0; i < m; i++) out[o + i] = in[o + i] ^ ks[i];
	}
	(void)ct;
	if (!dec) ghash_update(y, h, out, len);
	put_be64(lb, (uint64_t)aadlen * 8); put_be64(lb + 8, (uint64_t)len * 8);
	ghash_update(y, h, lb, 16);
	ref_aes_enc_block(k, j0, ej0);
	for (int i = 0; i < 16; i++) tag[i] = y[i] ^ ej0[i];
}
void ref_gcm_enc(const ref_aes_key *k, const uint8_t iv[12], const uint8_t *aad, size_t aadlen,
		 const uint8_t *in, uint8_t *out, size_t len, uint8_t tag[16])
{ gcm_core(k, iv, aad, aadlen, in, out, len, tag, 0); }
void ref_gcm_dec(const ref_aes_key *k, const uint8_t iv[12], const uint8_t *aad, size_t aadlen,
		 const uint8_t *in, uint8_t *out, size_t len, uint8_t tag[16])
{ gcm_core(k, iv, aad, aadlen, in, out, len, tag, 1); }

/* ---------------- XTS (IEEE 1619) ---------------- */
static void xts_mul_alpha(uint8_t t[16])
{
	int carry = t[15] >> 7;
	for (int i = 15; i > 0; i--) t[i] = (t[i] << 1) | (t[i - 1] >> 7);
	t[0] <<= 1;
	if (carry) t[0] ^= 0x87;
}
static void xts_blk(const ref_aes_key *k1, const uint8_t t[16], const uint8_t *in, uint8_t *out, int dec)
{
	uint8_t b[16];
	memcpy(b, in, 16); xor16(b, t);
	if (dec) ref_aes_dec_block(k1, b, b); else ref_aes_enc_block(k1, b, b);
	xor16(b, t); memcpy(out, b, 16);
}
void ref_xts_enc(const ref_aes_key *k1, const ref_aes_key *k2, const uint8_t tweak[16],
		 const uint8_t *in, uint8_t *out, size_t len)
{
	uint8_t t[16], cc[16], pp[16];
	size_t nfull = len / 16, rem = len % 16, i;
	if (len < 16) return;
	ref_aes_enc_block(k2, tweak, t);
	for (i = 0; i + 1 < nfull || (i < nfull && rem == 0); i++) { xts_blk(k1, t, in + 16 * i, out + 16 * i, 0); xts_mul_alpha(t); }
	if (rem) {
		/* i == nfull-1 : last full block, then steal */
		xts_blk(k1, t, in + 16 * i, cc, 0); xts_mul_alpha(t);
		memcpy(pp, in + 16 * (i + 1), rem); memcpy(pp + rem, cc + rem, 16 - rem);
		uint8_t last[16];
		memcpy(last, cc, rem);
		xts_blk(k1, t, pp, out + 16 * i, 0);
		memcpy(out + 16 * (i + 1), last, rem);
	}
}
void ref_xts_dec(const ref_aes_key *k1, const ref_aes_key *k2, const uint8_t tweak[16],
		 const uint8_t *in, uint8_t *out, size_t len)
{
	uint8_t t[16], t2[16], pp[16], cc[16];
	size_t nfull = len / 16, rem = len % 16, i;
	if (len < 16) return;
	ref_aes_enc_block(k2, tweak, t);
	for (i = 0; i + 1 < nfull || (i < nfull && rem == 0); i++) { xts_blk(k1, t, in + 16 * i, out + 16 * i, 1); xts_mul_alpha(t); }
	if (rem) {
		memcpy(t2, t, 16); xts_mul_alpha(t2);     /* tweak m (t2) first, then m-1 (t) */
		xts_blk(k1, t2, in + 16 * i, pp, 1);
		memcpy(cc, in + 16 * (i + 1), rem); memcpy(cc + rem, pp + rem, 16 - rem);
		uint8_t last[16];
		memcpy(last, pp, rem);
		xts_blk(k1, t, cc, out + 16 * i, 1);
		memcpy(out + 16 * (i + 1), last, rem);
	}
}

/* ---------------- MurmurHash3_x64_128 ---------------- */
static uint64_t fmix64(uint64_t k)
{
	k ^= k >> 33; k *= 0xff51afd7ed558ccdULL; k ^= k >> 33; k *= 0xc4ceb9fe1a85ec53ULL; k ^= k >> 33;
	return k;
}
static uint64_t le64(const uint8_t *p) { return (uint64_t)le32(p) | ((uint64_t)le32(p + 4) << 32); }
void ref_murmur3_x64_128_ext(const void *data, size_t len, uint64_t seed, uint64_t len_offset, uint8_t out[16])
{
	const uint8_t *p = data;
	const uint64_t c1 = 0x87c37b91114253d5ULL, c2 = 0x4cf5ad432745937fULL;
	uint64_t h1 = seed, h2 = seed;
	size_t nb = len / 16;
	for (size_t i = 0; i < nb; i++) {
		uint64_t k1 = le64(p + 16 * i), k2 = le64(p + 16 * i + 8);
		k1 *= c1; k1 = rol64(k1, 31); k1 *= c2; h1 ^= k1;
		h1 = rol64(h1, 27); h1 += h2; h1 = h1 * 5 + 0x52dce729;
		k2 *= c2; k2 = rol64(k2, 33); k2 *= c1; h2 ^= k2;
		h2 = rol64(h2, 31); h2 += h1; h2 = h2 * 5 + 0x38495ab5;
	}
	const uint8_t *t = p + 16 * nb;
	uint64_t k1 = 0, k2 = 0;
	unsigned r = len & 15;
	for (unsigned i = r; i > 8; i--) k2 ^= (uint64_t)t[i - 1] << (8 * (i - 9));
	if (r > 8) { k2 *= c2; k2 = rol64(k2, 33); k2 *= c1; h2 ^= k2; }
	for (unsigned i = (r > 8 ? 8 : r); i > 0; i--) k1 ^= (uint64_t)t[i - 1] << (8 * (i - 1));
	if (r > 0) { k1 *= c1; k1 = rol64(k1, 31); k1 *= c2; h1 ^= k1; }
	h1 ^= (uint64_t)len + len_offset; h2 ^= (uint64_t)len + len_offset;
	h1 += h2; h2 += h1;
	h1 = fmix64(h1); h2 = fmix64(h2);
	h1 += h2; h2 += h1;
	put_le64(out, h1); put_le64(out + 8, h2);
}

void ref_murmur3_x64_128(const void *data, size_t len, uint64_t seed, uint8_t out[16]) { ref_murmur3_x64_128_ext(data, len, seed, 0, out); }

/* ---------------- multi-hash ---------------- */
/* Stream padded SHA-style to a multiple of 1024 bytes (0x80, zeros, 64-bit BE bit length in the
 * last 8 bytes). 32-bit word j of each 1024-byte block belongs to segment j%16, as that
 * segment's word j/16 of its 64-byte SHA block. The 16 segments are hashed with the raw
 * compression function (no further padding). The digest matrix D[word][segment] (native
 * little-endian uint32, as the library documents) is then hashed with the standard hash. */
static void mh_generic(const uint8_t *data, size_t len, uint64_t len_offset, uint32_t *digest, int is256)
{
	int nw = is256 ? 8 : 5;
	static const uint32_t i1[5] = { 0x67452301, 0xefcdab89, 0x98badcfe, 0x10325476, 0xc3d2e1f0 };
	static const uint32_t i256[8] = { 0x6a09e667, 0xbb67ae85, 0x3c6ef372, 0xa54ff53a, 0x510e527f, 0x9b05688c, 0x1f83d9ab, 0x5be0cd19 };
	uint32_t seg[16][8];
	for (int s = 0; s < 16; s++) for (int i = 0; i < nw; i++) seg[s][i] = is256 ? i256[i] : i1[i];
	size_t padded = ((len + 1 + 8 + 1023) / 1024) * 1024;
	uint8_t *m = calloc(1, padded);
	memcpy(m, data, len);
	m[len] = 0x80;
	put_be64(m + padded - 8, ((uint64_t)len + len_offset) * 8);   /* len_offset: a multiple of 1024 bytes treated as already hashed (length field only) */
	for (size_t b = 0; b < padded / 1024; b++) {
		for (int s = 0; s < 16; s++) {
			uint8_t blk[64];
			for (int i = 0; i < 16; i++) memcpy(blk + 4 * i, m + b * 1024 + 4 * (i * 16 + s), 4);
			if (is256) sha256_block(seg[s], blk); else sha1_block(seg[s], blk);
		}
	}
	free(m);
	uint8_t mat[8 * 16 * 4];
	for (int i = 0; i < nw; i++) for (int s = 0; s < 16; s++) put_le32(mat + 4 * (i * 16 + s), seg[s][i]);
	uint8_t out[32];
	ref_hash_oneshot(is256 ? REF_SHA256 : REF_SHA1, mat, 4 * nw * 16, out);
	for (int i = 0; i < nw; i++) digest[i] = be32(out + 4 * i);
}
void ref_mh_sha1(const uint8_t *data, size_t len, uint32_t digest[5]) { mh_generic(data, len, 0, digest, 0); }
void ref_mh_sha256(const uint8_t *data, size_t len, uint32_t digest[8]) { mh_generic(data, len, 0, digest, 1); }
void ref_mh_ext(int is256, const uint8_t *data, size_t len, uint64_t len_offset, uint32_t *digest) { mh_generic(data, len, len_offset, digest, is256); }

/* ---------------- rolling hash ---------------- */
uint64_t ref_rolling_hash(const uint8_t *b, unsigned w)
{
	uint64_t h = 0;
	for (unsigned i = 0; i < w; i++) {
		unsigned r = (w - 1 - i) & 63;
		uint64_t v = ref_rolling_table1[b[i]];
		h ^= r ? rol64(v, r) : v;
	}
	return h;
}
