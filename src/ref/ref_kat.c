/* Known-answer tests for the reference implementations; optional cross-check against libcrypto
 * (compile with -DHAVE_OPENSSL -lcrypto). A reference that fails aborts setup: a wrong oracle
 * must not be able to raise a VIOLATION. */
#include "ref.h"
#include <stdio.h>
#include <string.h>
#include <stdlib.h>
#ifdef HAVE_OPENSSL
#include <openssl/evp.h>
#endif

static int fails;
static void hex2bin(const char *h, uint8_t *o) { for (size_t i = 0; h[2 * i]; i++) { unsigned v; sscanf(h + 2 * i, "%2x", &v); o[i] = v; } }
static void expect(const char *what, const uint8_t *got, const char *hex)
{
	uint8_t e[256]; size_t n = strlen(hex) / 2;
	hex2bin(hex, e);
	if (memcmp(got, e, n)) { fails++; fprintf(stderr, "KAT FAIL: %s\n", what); }
}

#ifdef HAVE_OPENSSL
static uint64_t rs = 0x9e3779b97f4a7c15ULL;
static uint64_t rnd(void) { rs ^= rs << 13; rs ^= rs >> 7; rs ^= rs << 17; return rs; }
static void ossl_hash(const char *name, const uint8_t *d, size_t n, uint8_t *out)
{
	EVP_MD_CTX *c = EVP_MD_CTX_new(); unsigned l;
	const EVP_MD *md = EVP_get_digestbyname(name);
	if (!md) { memset(out, 0, 64); EVP_MD_CTX_free(c); return; }
	EVP_DigestInit_ex(c, md, NULL); EVP_DigestUpdate(c, d, n); EVP_DigestFinal_ex(c, out, &l); EVP_MD_CTX_free(c);
}
static int ossl_cipher(const EVP_CIPHER *ciph, int enc, const uint8_t *key, const uint8_t *iv, int ivlen,
		       const uint8_t *aad, int aadlen, const uint8_t *in, int len, uint8_t *out, uint8_t *tag, int nopad)
{
	EVP_CIPHER_CTX *c = EVP_CIPHER_CTX_new(); int l, l2;
	EVP_CipherInit_ex(c, ciph, NULL, NULL, NULL, enc);
	if (tag) EVP_CIPHER_CTX_ctrl(c, EVP_CTRL_GCM_SET_IVLEN, ivlen, NULL);
	EVP_CipherInit_ex(c, NULL, NULL, key, iv, enc);
	if (nopad) EVP_CIPHER_CTX_set_padding(c, 0);
	if (aadlen) EVP_CipherUpdate(c, NULL, &l, aad, aadlen);
	l = 0;
	if (len || !tag) EVP_CipherUpdate(c, out, &l, in, len);
	EVP_CipherFinal_ex(c, out + l, &l2);
	if (tag) EVP_CIPHER_CTX_ctrl(c, EVP_CTRL_GCM_GET_TAG, 16, tag);
	EVP_CIPHER_CTX_free(c);
	return l + l2;
}
static void cross_check(void)
{
	static uint8_t buf[5000], o1[5000], o2[5000], o3[5000];
	const char *names[REF_NALG] = { "sha1", "sha256", "sha512", "md5", "sm3" };
	int n_x = 0;
	for (int it = 0; it < 400; it++) {
		size_t n = rnd() % 700;
		for (size_t i = 0; i < n; i++) buf[i] = rnd();
		for (int a = 0; a < REF_NALG; a++) {
			if (!EVP_get_digestbyname(names[a])) continue;
			ref_hash_oneshot(a, buf, n, o1); ossl_hash(names[a], buf, n, o2);
			if (memcmp(o1, o2, ref_hash_dlen(a))) { fails++; fprintf(stderr, "XCHK FAIL %s len %zu\n", names[a], n); }
			/* incremental split */
			ref_hash c; ref_hash_init(&c, a); size_t s = n ? rnd() % (n + 1) : 0;
			ref_hash_update(&c, buf, s); ref_hash_update(&c, buf + s, n - s); ref_hash_final(&c, 0, o1);
			if (memcmp(o1, o2, ref_hash_dlen(a))) { fails++; fprintf(stderr, "XCHK FAIL %s incr\n", names[a]); }
			n_x++;
		}
		uint8_t key[64], iv[16], tag1[16], tag2[16], aad[64];
		for (int i = 0; i < 64; i++) { key[i] = rnd(); aad[i] = rnd(); }
		for (int i = 0; i < 16; i++) iv[i] = rnd();
		if (it % 5 == 0) iv[15] |= 0x80; /* xts carry */
		for (int kb = 128; kb <= 256; kb += 64) {
			ref_aes_key k; ref_aes_expand(&k, key, kb);
			const EVP_CIPHER *cbc = kb == 128 ? EVP_aes_128_cbc() : kb == 192 ? EVP_aes_192_cbc() : EVP_aes_256_cbc();
			size_t l16 = (n / 16) * 16;
			if (l16) {
				ref_cbc_enc(&k, iv, buf, o1, l16); ossl_cipher(cbc, 1, key, iv, 16, NULL, 0, buf, l16, o2, NULL, 1);
				if (memcmp(o1, o2, l16)) { fails++; fprintf(stderr, "XCHK FAIL cbc%d enc\n", kb); }
				ref_cbc_dec(&k, iv, o1, o3, l16);
				if (memcmp(o3, buf, l16)) { fails++; fprintf(stderr, "XCHK FAIL cbc%d dec\n", kb); }
			}
			if (kb == 192) continue;
			const EVP_CIPHER *gcm = kb == 128 ? EVP_aes_128_gcm() : EVP_aes_256_gcm();
			int al = rnd() % 50;
			ref_gcm_enc(&k, iv, aad, al, buf, o1, n, tag1);
			ossl_cipher(gcm, 1, key, iv, 12, aad, al, buf, n, o2, tag2, 0);
			if (memcmp(o1, o2, n) || memcmp(tag1, tag2, 16)) { fails++; fprintf(stderr, "XCHK FAIL gcm%d len %zu aad %d\n", kb, n, al); }
			ref_gcm_dec(&k, iv, aad, al, o1, o3, n, tag2);
			if (memcmp(o3, buf, n) || memcmp(tag1, tag2, 16)) { fails++; fprintf(stderr, "XCHK FAIL gcm%d dec\n", kb); }
			if (n >= 16) {
				const EVP_CIPHER *xts = kb == 128 ? EVP_aes_128_xts() : EVP_aes_256_xts();
				ref_aes_key k2; ref_aes_expand(&k2, key + kb / 8, kb);
				ref_xts_enc(&k, &k2, iv, buf, o1, n);
				ossl_cipher(xts, 1, key, iv, 16, NULL, 0, buf, n, o2, NULL, 0);
				if (memcmp(o1, o2, n)) { fails++; fprintf(stderr, "XCHK FAIL xts%d enc len %zu\n", kb, n); }
				ref_xts_dec(&k, &k2, iv, o1, o3, n);
				if (memcmp(o3, buf, n)) { fails++; fprintf(stderr, "XCHK FAIL xts%d dec len %zu\n", kb, n); }
			}
			n_x += 3;
		}
	}
	fprintf(stderr, "ref_kat: %d libcrypto cross-checks done\n", n_x);
}
#endif

int ref_run_kats(int verbose)
{
	uint8_t o[64], key[32], pt[16], ct[16];
	fails = 0;
	ref_hash_oneshot(REF_SHA1, "abc", 3, o); expect("sha1 abc", o, "a9993e364706816aba3e25717850c26c9cd0d89d");
	ref_hash_oneshot(REF_SHA1, "", 0, o); expect("sha1 empty", o, "da39a3ee5e6b4b0d3255bfef95601890afd80709");
	ref_hash_oneshot(REF_SHA256, "abc", 3, o); expect("sha256 abc", o, "ba7816bf8f01cfea414140de5dae2223b00361a396177a9cb410ff61f20015ad");
	ref_hash_oneshot(REF_SHA256, "abcdbcdecdefdefgefghfghighijhijkijkljklmklmnlmnomnopnopq", 56, o);
	expect("sha256 2blk", o, "248d6a61d20638b8e5c026930c3e6039a33ce45964ff2167f6ecedd419db06c1");
	ref_hash_oneshot(REF_SHA512, "abc", 3, o);
	expect("sha512 abc", o, "ddaf35a193617abacc417349ae20413112e6fa4e89a97ea20a9eeee64b55d39a2192992a274fc1a836ba3c23a3feebbd454d4423643ce80e2a9ac94fa54ca49f");
	ref_hash_oneshot(REF_MD5, "abc", 3, o); expect("md5 abc", o, "900150983cd24fb0d6963f7d28e17f72");
	ref_hash_oneshot(REF_MD5, "", 0, o); expect("md5 empty", o, "d41d8cd98f00b204e9800998ecf8427e");
	ref_hash_oneshot(REF_SM3, "abc", 3, o); expect("sm3 abc", o, "66c7f0f462eeedd9d1f2d46bdc10e4e24167c4875cf2f7a2297da02b8f4ba8e0");
	ref_hash_oneshot(REF_SM3, "abcdabcdabcdabcdabcdabcdabcdabcdabcdabcdabcdabcdabcdabcdabcdabcd", 64, o);
	expect("sm3 64", o, "debe9ff92275b8a138604889c18e5a4d6fdb70e5387e5765293dcba39c0c5732");
	/* FIPS-197 appendix C */
	for (int i = 0; i < 32; i++) key[i] = i;
	for (int i = 0; i < 16; i++) pt[i] = i * 0x11;
	ref_aes_key k;
	ref_aes_expand(&k, key, 128); ref_aes_enc_block(&k, pt, ct); expect("aes128", ct, "69c4e0d86a7b0430d8cdb78070b4c55a");
	ref_aes_dec_block(&k, ct, o); if (memcmp(o, pt, 16)) { fails++; fprintf(stderr, "KAT FAIL aes128 dec\n"); }
	ref_aes_expand(&k, key, 192); ref_aes_enc_block(&k, pt, ct); expect("aes192", ct, "dda97ca4864cdfe06eaf70a0ec0d7191");
	ref_aes_dec_block(&k, ct, o); if (memcmp(o, pt, 16)) { fails++; fprintf(stderr, "KAT FAIL aes192 dec\n"); }
	ref_aes_expand(&k, key, 256); ref_aes_enc_block(&k, pt, ct); expect("aes256", ct, "8ea2b7ca516745bfeafc49904b496089");
	ref_aes_dec_block(&k, ct, o); if (memcmp(o, pt, 16)) { fails++; fprintf(stderr, "KAT FAIL aes256 dec\n"); }
	/* FIPS-197 A.1 last round key of 2b7e1516... */
	hex2bin("2b7e151628aed2a6abf7158809cf4f3c", key); ref_aes_expand(&k, key, 128);
	expect("aes128 rk10", k.rk[10], "d014f9a8c9ee2589e13f0cc8b6630ca6");
	/* equivalent inverse cipher schedule: decrypt with it */
	{
		uint8_t dk[15][16]; ref_aes_dec_schedule(&k, dk);
		if (memcmp(dk[0], k.rk[10], 16) || memcmp(dk[10], k.rk[0], 16)) { fails++; fprintf(stderr, "KAT FAIL dec sched ends\n"); }
	}
	/* SP 800-38A F.2.1 CBC-AES128 first block */
	{
		uint8_t iv[16], p[16], c[16];
		hex2bin("000102030405060708090a0b0c0d0e0f", iv); hex2bin("6bc1bee22e409f96e93d7e117393172a", p);
		ref_cbc_enc(&k, iv, p, c, 16); expect("cbc128", c, "7649abac8119b246cee98e9b12e9197d");
	}
	/* GCM spec test case 4 */
	{
		uint8_t gk[16], iv[12], aad[20], p[60], c[60], tag[16];
		hex2bin("feffe9928665731c6d6a8f9467308308", gk); hex2bin("cafebabefacedbaddecaf888", iv);
		hex2bin("feedfacedeadbeeffeedfacedeadbeefabaddad2", aad);
		hex2bin("d9313225f88406e5a55909c5aff5269a86a7a9531534f7da2e4c303d8a318a721c3c0c95956809532fcf0e2449a6b525b16aedf5aa0de657ba637b39", p);
		ref_aes_expand(&k, gk, 128);
		ref_gcm_enc(&k, iv, aad, 20, p, c, 60, tag);
		expect("gcm tc4 ct", c, "42831ec2217774244b7221b784d0d49ce3aa212f2c02a4e035c17e2329aca12e21d514b25466931c7d8f6a5aac84aa051ba30b396a0aac973d58e091");
		expect("gcm tc4 tag", tag, "5bc94fbc3221a5db94fae95ae7121a47");
		/* test case 1: empty */
		memset(gk, 0, 16); memset(iv, 0, 12); ref_aes_expand(&k, gk, 128);
		ref_gcm_enc(&k, iv, NULL, 0, NULL, NULL, 0, tag); expect("gcm tc1 tag", tag, "58e2fccefa7e3061367f1d57a4e7455a");
	}
	/* IEEE 1619 vector 1 */
	{
		uint8_t z[32] = { 0 }, c[32]; ref_aes_key k1, k2;
		ref_aes_expand(&k1, z, 128); ref_aes_expand(&k2, z, 128);
		ref_xts_enc(&k1, &k2, z, z, c, 32);
		expect("xts v1", c, "917cf69ebd68b2ec9b9fe9a3eadda692cd43d2f59598ed858c02c2652fbf922e");
		/* IEEE 1619 vector 15: stealing, 17 bytes */
		uint8_t kk1[16], kk2[16], tw[16] = { 0x9a, 0x78, 0x56, 0x34, 0x12 }, p[17], cc[17], d[17];
		hex2bin("fffefdfcfbfaf9f8f7f6f5f4f3f2f1f0", kk1); hex2bin("bfbebdbcbbbab9b8b7b6b5b4b3b2b1b0", kk2);
		for (int i = 0; i < 17; i++) p[i] = i;
		ref_aes_expand(&k1, kk1, 128); ref_aes_expand(&k2, kk2, 128);
		ref_xts_enc(&k1, &k2, tw, p, cc, 17);
		expect("xts v15", cc, "6c1625db4671522d3d7599601de7ca09ed");
		ref_xts_dec(&k1, &k2, tw, cc, d, 17);
		if (memcmp(d, p, 17)) { fails++; fprintf(stderr, "KAT FAIL xts v15 dec\n"); }
	}
	/* MurmurHash3_x64_128 (SMHasher reference values) */
	ref_murmur3_x64_128("The quick brown fox jumps over the lazy dog", 43, 0, o);
	expect("murmur fox", o, "6c1b07bc7bbc4be347939ac4a93c437a");
	ref_murmur3_x64_128("", 0, 0, o); expect("murmur empty", o, "00000000000000000000000000000000");
	ref_murmur3_x64_128("hello", 5, 0, o); expect("murmur hello", o, "029bbd41b3a7d8cb191dae486a901e5b");
	/* rolling hash: definition h = XOR rol(T[b_i], w-1-i) vs the incremental recurrence */
	{
		uint8_t b[100]; uint64_t h = 0; unsigned w = 13;
		for (int i = 0; i < 100; i++) b[i] = i * 37 + 11;
		for (unsigned i = 0; i < w; i++) { h = (h << 1) | (h >> 63); h ^= ref_rolling_table1[b[i]]; }
		if (h != ref_rolling_hash(b, w)) { fails++; fprintf(stderr, "KAT FAIL rolling init\n"); }
		for (unsigned i = w; i < 100; i++) {
			uint64_t t = ref_rolling_table1[b[i - w]];
			h = ((h << 1) | (h >> 63)) ^ ref_rolling_table1[b[i]] ^ ((t << w) | (t >> (64 - w)));
			if (h != ref_rolling_hash(b + i - w + 1, w)) { fails++; fprintf(stderr, "KAT FAIL rolling step\n"); break; }
		}
		/* table pin: first entries are the hex digits of pi */
		if (ref_rolling_table1[0] != 0x243F6A8885A308D3ULL || ref_rolling_table1[255] == 0) { fails++; fprintf(stderr, "KAT FAIL table\n"); }
	}
#ifdef HAVE_OPENSSL
	cross_check();
#endif
	if (verbose) fprintf(stderr, "ref_kat: %s (%d failures)\n", fails ? "FAIL" : "ok", fails);
	return fails;
}
#ifdef REF_KAT_MAIN
int main(void) { return ref_run_kats(1) ? 1 : 0; }
#endif
