/* Reference implementations written from the standards; deliberately slow and obvious.
 * Independent of the repository's own *_ref.c files. Validated by KATs in ref_kat.c. */
#ifndef VERIF_REF_H
#define VERIF_REF_H
#include <stdint.h>
#include <stddef.h>

enum ref_alg { REF_SHA1, REF_SHA256, REF_SHA512, REF_MD5, REF_SM3, REF_NALG };

typedef struct {
	enum ref_alg alg;
	uint64_t h[8];          /* chaining value (32-bit algs use low halves) */
	uint8_t buf[128];
	unsigned buflen;
	uint64_t total;         /* bytes fed */
} ref_hash;

unsigned ref_hash_block(enum ref_alg a);      /* 64 or 128 */
unsigned ref_hash_words(enum ref_alg a);      /* number of digest words */
unsigned ref_hash_wordsize(enum ref_alg a);   /* 4 or 8 */
void ref_hash_init(ref_hash *c, enum ref_alg a);
void ref_hash_update(ref_hash *c, const void *data, size_t len);
/* finalize a copy; length field = total + len_offset (C15). Output: standard digest bytes */
void ref_hash_final(const ref_hash *c, uint64_t len_offset, uint8_t *out);
unsigned ref_hash_dlen(enum ref_alg a);
/* one-shot */
void ref_hash_oneshot(enum ref_alg a, const void *d, size_t n, uint8_t *out);
/* raw compression of whole blocks w/o padding, on a caller-held state of 32-bit words */
void ref_sha1_blocks(uint32_t h[5], const uint8_t *p, size_t nblk);
void ref_sha256_blocks(uint32_t h[8], const uint8_t *p, size_t nblk);

/* AES */
typedef struct { int nr; uint8_t rk[15][16]; } ref_aes_key;   /* encryption round keys */
void ref_aes_expand(ref_aes_key *k, const uint8_t *key, int keybits);
void ref_aes_dec_schedule(const ref_aes_key *k, uint8_t out[15][16]); /* reversed + InvMixColumns inner */
void ref_aes_enc_block(const ref_aes_key *k, const uint8_t in[16], uint8_t out[16]);
void ref_aes_dec_block(const ref_aes_key *k, const uint8_t in[16], uint8_t out[16]);
void ref_cbc_enc(const ref_aes_key *k, const uint8_t iv[16], const uint8_t *in, uint8_t *out, size_t len);
void ref_cbc_dec(const ref_aes_key *k, const uint8_t iv[16], const uint8_t *in, uint8_t *out, size_t len);
/* GCM with 12-byte IV; tag 16 bytes (truncate as needed) */
void ref_gcm_enc(const ref_aes_key *k, const uint8_t iv[12], const uint8_t *aad, size_t aadlen,
		 const uint8_t *in, uint8_t *out, size_t len, uint8_t tag[16]);
void ref_gcm_dec(const ref_aes_key *k, const uint8_t iv[12], const uint8_t *aad, size_t aadlen,
		 const uint8_t *in, uint8_t *out, size_t len, uint8_t tag[16]);
void ref_gcm_hashkey(const ref_aes_key *k, uint8_t h[16]);
/* XTS (len >= 16) */
void ref_xts_enc(const ref_aes_key *k1, const ref_aes_key *k2, const uint8_t tweak[16],
		 const uint8_t *in, uint8_t *out, size_t len);
void ref_xts_dec(const ref_aes_key *k1, const ref_aes_key *k2, const uint8_t tweak[16],
		 const uint8_t *in, uint8_t *out, size_t len);

/* MurmurHash3_x64_128, both state words initialised with the 64-bit seed (library convention) */
void ref_murmur3_x64_128(const void *data, size_t len, uint64_t seed, uint8_t out[16]);

/* multi-hash (mh_sha1: 5 words, mh_sha256: 8 words); digest returned as native uint32 words */
void ref_mh_sha1(const uint8_t *data, size_t len, uint32_t digest[5]);
void ref_mh_sha256(const uint8_t *data, size_t len, uint32_t digest[8]);
/* length field = (len + len_offset) * 8; len_offset is a multiple of 1024 */
void ref_mh_ext(int is256, const uint8_t *data, size_t len, uint64_t len_offset, uint32_t *digest);
void ref_murmur3_x64_128_ext(const void *data, size_t len, uint64_t seed, uint64_t len_offset, uint8_t out[16]);

/* rolling hash by definition, from a pinned copy of the table */
extern const uint64_t ref_rolling_table1[256];
uint64_t ref_rolling_hash(const uint8_t *last_w_bytes, unsigned w);

int ref_run_kats(int verbose);   /* 0 = all pass */
#endif
