/* E6 - dispatch-configuration explorer (DESIGN.md 5.12): enumerates every architecturally consistent
 * assignment of the CPUID / XCR0 bits the resolvers test, runs each real <entry>_dispatch_init under the
 * virtual CPU and checks the binding:
 *   (i)   instruction-set classes executed by the bound target (measured by single-stepping in phase 0 and
 *         passed in with --isa) are a subset of the classes available in the configuration,
 *   (ii)  entry points that operate on one shared object bind to the same family,
 *   (iii) the slot no longer points at the resolver stub and points at the start of a known family symbol,
 *   (iv)  XGETBV is never executed while the virtual CPU has OSXSAVE = 0. */
#define _GNU_SOURCE
#include "vkit.h"
#include <stdlib.h>

struct entry { char name[96]; void **slot; void *mbinit, *init; char group[48]; int aes; };
static struct entry ents[128]; static int nents;

struct isa { char fn[96]; uint32_t mask; unsigned insns; };
static struct isa *isas; static int nisas;
static uint32_t isa_of(const char *fn, int *found)
{
	for (int i = 0; i < nisas; i++) if (!strcmp(isas[i].fn, fn)) { *found = 1; return isas[i].mask; }
	*found = 0; return 0;
}
static const char *tags[] = { "vaes_avx512", "avx512_ni", "sse_ni", "sb_sse4", "avx_gen2", "avx_gen4", "avx512", "avx2", "avx", "sse", "vaes", "base", "_x4", "_x8", "_00", "_04", NULL };
static const char *family_tag(const char *target)
{
	for (int i = 0; tags[i]; i++) { const char *p = strstr(target, tags[i]); if (p) return tags[i]; }
	return "?";
}
static void group_of(struct entry *e)
{
	const char *n = e->name;
	char alg[32];
	e->aes = !strncmp(n, "_aes_", 5) || !strncmp(n, "_XTS_", 5);
	if (sscanf(n, "_%31[a-z0-9]_ctx_mgr_", alg) == 1 && strstr(n, "_ctx_mgr_")) snprintf(e->group, sizeof e->group, "%s_mgr", alg);
	else if (!strncmp(n, "_aes_gcm_", 9)) snprintf(e->group, sizeof e->group, "gcm_%s", strstr(n, "256") ? "256" : "128");
	else if (!strncmp(n, "_mh_sha1_murmur3", 16)) snprintf(e->group, sizeof e->group, "mh_sha1_murmur3");
	else if (!strncmp(n, "_mh_sha256", 10)) snprintf(e->group, sizeof e->group, "mh_sha256");
	else if (!strncmp(n, "_mh_sha1", 8)) snprintf(e->group, sizeof e->group, "mh_sha1");
	else snprintf(e->group, sizeof e->group, "%s", n);
}

struct cfg { uint32_t l1a, l1c, l7b, l7c; uint64_t xcr0; };
static uint32_t avail_mask(const struct cfg *c)
{
	uint32_t m = 0;
	int osx = c->l1c >> 27 & 1, avx = (c->l1c >> 28 & 1) && osx && (c->xcr0 & 6) == 6;
	int f = avx && (c->l7b >> 16 & 1) && (c->xcr0 & 0xe0) == 0xe0;
	if (c->l1c >> 19 & 1) m |= 1u << ISA_SSE41;
	if (c->l1c >> 20 & 1) m |= 1u << ISA_SSE42;
	if (avx) m |= (1u << ISA_AVX) | (1u << ISA_YMM_STATE);
	if (avx && (c->l7b >> 5 & 1)) m |= 1u << ISA_AVX2;
	if (f) {
		m |= (1u << ISA_AVX512F) | (1u << ISA_ZMM_STATE);
		if (c->l7b >> 31 & 1) m |= 1u << ISA_AVX512VL;
		if (c->l7b >> 30 & 1) m |= 1u << ISA_AVX512BW;
		if (c->l7b >> 17 & 1) m |= 1u << ISA_AVX512DQ;
		if (c->l7b >> 28 & 1) m |= 1u << ISA_AVX512CD;
		if (c->l7c >> 6 & 1) m |= 1u << ISA_VBMI2;
		if (c->l7c >> 11 & 1) m |= 1u << ISA_VNNI;
		if (c->l7c >> 12 & 1) m |= 1u << ISA_BITALG;
		if (c->l7c >> 14 & 1) m |= 1u << ISA_VPOPCNTDQ;
	}
	if (c->l7b >> 29 & 1) m |= 1u << ISA_SHA;
	if (avx && (c->l7c >> 9 & 1)) m |= 1u << ISA_VAES;
	if (avx && (c->l7c >> 10 & 1)) m |= 1u << ISA_VPCLMULQDQ;
	if (c->l7c >> 8 & 1) m |= 1u << ISA_GFNI;
	return m;
}
static void cfg_str(const struct cfg *c, char *b, size_t n)
{
	snprintf(b, n, "cpuid1.eax=%08x cpuid1.ecx=%08x cpuid7.ebx=%08x cpuid7.ecx=%08x xcr0=%llx", c->l1a, c->l1c, c->l7b, c->l7c, (unsigned long long)c->xcr0);
}
static void set_cfg(const struct cfg *c)
{
	vcpu_mode = 1;
	vcpu_l1[0] = c->l1a; vcpu_l1[1] = 0; vcpu_l1[2] = c->l1c; vcpu_l1[3] = (1u << 26) | (1u << 25);
	vcpu_l7[0] = 0; vcpu_l7[1] = c->l7b; vcpu_l7[2] = c->l7c; vcpu_l7[3] = 0;
	vcpu_xcr0 = c->xcr0;
}

static const char *bound[128];
static void check_cfg(const struct cfg *c, int conformance)
{
	uint32_t av = avail_mask(c);
	char cs[200];
	for (int i = 0; i < nents; i++) {
		struct entry *e = &ents[i];
		*e->slot = e->mbinit;                         /* re-arm: "first call" */
		uint64_t ud0 = vcpu_xgetbv_ud;
		VCALLN(e->init, e->name, A64(0));           /* the real resolver */
		vk_stat("transitions", 1);
		void *t = *e->slot;
		uintptr_t off = 0;
		const char *tn = vk_sym_at((uintptr_t)t, &off);
		bound[i] = tn ? tn : "?";
		if (vcpu_xgetbv_ud != ud0) {
			char key[160]; snprintf(key, sizeof key, "%s:xgetbv_without_osxsave", e->name);
			cfg_str(c, cs, sizeof cs);
			vk_violation("C12", key, NULL, "%s_dispatch_init executes XGETBV although CPUID reports OSXSAVE=0 (#UD on hardware) [%s]", e->name, cs);
		}
		if (t == e->mbinit || !tn || off != 0) {
			char key[160]; snprintf(key, sizeof key, "%s:not_bound", e->name);
			cfg_str(c, cs, sizeof cs);
			vk_violation("C12", key, NULL, "after its resolver ran, %s_dispatched = %p (%s+%lu): not the start of an implementation [%s]", e->name, t, tn ? tn : "?", (unsigned long)off, cs);
			continue;
		}
		int found;
		uint32_t req = isa_of(tn, &found);
		if (!found) { static char seen[64][96]; static int ns; int k; for (k = 0; k < ns && strcmp(seen[k], tn); k++) ; if (k == ns && ns < 64) { snprintf(seen[ns++], 96, "%s", tn); vk_note("target %s was not measured in phase 0: no ISA requirement derived for it", tn); } vk_distinct("unmeasured_targets", vk_hash(tn, strlen(tn), 3)); }
		req &= (1u << ISA_INFO_SSSE3) - 1;           /* informational classes are outside the property's quantifier */
		if (e->aes) req &= ~((1u << ISA_SSE41) | (1u << ISA_SSE42));   /* documented minimum of the AES entry points */
		uint32_t miss = req & ~av;
		if (miss) {
			char key[200], list[200] = ""; int o = 0;
			for (int b = 0; b < ISA_NCLASS; b++) if (miss & (1u << b)) o += snprintf(list + o, sizeof list - o, "%s ", vk_isa_names[b]);
			/* key: entry + target family + first missing class */
			int fb = __builtin_ctz(miss);
			snprintf(key, sizeof key, "%s:%s:needs:%s", e->name, family_tag(tn), vk_isa_names[fb]);
			cfg_str(c, cs, sizeof cs);
			vk_violation("C12", key, NULL, "%s binds to %s, which executes instructions of class { %s} not available in this configuration [%s]", e->name, tn, list, cs);
		}
		vk_distinct("bindings", vk_hash(tn, strlen(tn), vk_hash(e->name, strlen(e->name), 5)));
		if (conformance) vk_sample("host CPUID: %s -> %s", e->name, tn);
	}
	/* (ii) one family per object */
	for (int i = 0; i < nents; i++) for (int j = i + 1; j < nents; j++) {
		if (strcmp(ents[i].group, ents[j].group)) continue;
		const char *a = family_tag(bound[i]), *b = family_tag(bound[j]);
		if (strcmp(a, b)) {
			char key[240]; snprintf(key, sizeof key, "%s:mixed_families", ents[i].group);
			cfg_str(c, cs, sizeof cs);
			vk_violation("C12", key, NULL, "entry points of one object bind to different families: %s -> %s but %s -> %s [%s]", ents[i].name, bound[i], ents[j].name, bound[j], cs);
			j = nents;
		}
	}
	vk_stat("states", 1);
}

int main(int argc, char **argv)
{
	const char *v;
	vk_init(argc, argv);
	if (vk_opt("isa", &v)) {
		FILE *f = fopen(v, "r");
		isas = calloc(4096, sizeof *isas);
		while (f && nisas < 4096 && fscanf(f, "%95s %u %u", isas[nisas].fn, &isas[nisas].mask, &isas[nisas].insns) == 3) nisas++;
		if (f) fclose(f);
	}
	vk_stat("measured_functions", nisas);
	for (unsigned i = 0; i < vk_nsyms; i++) {
		const char *n = vk_symtab[i].name; size_t l = strlen(n);
		if (l > 11 && !strcmp(n + l - 11, "_dispatched") && nents < 128) {
			struct entry *e = &ents[nents];
			char b[128];
			snprintf(e->name, sizeof e->name, "%.*s", (int)(l - 11), n);
			e->slot = vk_symtab[i].addr;
			snprintf(b, sizeof b, "%s_mbinit", e->name); e->mbinit = vk_sym(b);
			snprintf(b, sizeof b, "%s_dispatch_init", e->name); e->init = vk_sym(b);
			if (!e->mbinit || !e->init) { vk_note("entry %s: resolver labels not found", e->name); continue; }
			group_of(e);
			nents++;
		}
	}
	vk_stat_max("dispatched_entry_points", nents);
	/* conformance of the virtualisation: host values through the virtual path and through pass-through bind identically */
	if (vk_shard == 0) {
		struct cfg h; uint32_t l1[4], l7[4];
		vk_cpu_real(l1, l7, &h.xcr0); h.l1a = l1[0]; h.l1c = l1[2]; h.l7b = l7[1]; h.l7c = l7[2];
		set_cfg(&h); check_cfg(&h, 0);
		const char *virt[128]; memcpy(virt, bound, sizeof virt);
		vcpu_mode = 0;
		for (int i = 0; i < nents; i++) {
			*ents[i].slot = ents[i].mbinit;
			VCALLN(ents[i].init, ents[i].name, A64(0));
			uintptr_t off; const char *tn = vk_sym_at((uintptr_t)*ents[i].slot, &off);
			if (!tn || strcmp(tn, virt[i])) vk_violation("C12", "conformance:virtual_vs_real_cpuid", NULL, "%s binds to %s under the real CPUID but to %s when the same values are served by the virtual CPU", ents[i].name, tn ? tn : "?", virt[i]);
			vk_stat("conformance_bindings_compared", 1);
			if (i < 3) vk_sample("host CPUID (pass-through): %s -> %s", ents[i].name, tn ? tn : "?");
		}
	}
	/* exhaustive enumeration of consistent configurations */
	long idx = 0;
	for (uint32_t bits = 0; bits < (1u << 22); bits++) {
		int sse41 = bits & 1, sse42 = bits >> 1 & 1, osx = bits >> 2 & 1, avx = bits >> 3 & 1, avoton = bits >> 4 & 1, avx2 = bits >> 5 & 1,
		    f = bits >> 6 & 1, dq = bits >> 7 & 1, cd = bits >> 8 & 1, bw = bits >> 9 & 1, vl = bits >> 10 & 1, sha = bits >> 11 & 1,
		    vbmi2 = bits >> 12 & 1, gfni = bits >> 13 & 1, vaes = bits >> 14 & 1, vpcl = bits >> 15 & 1, vnni = bits >> 16 & 1, bitalg = bits >> 17 & 1,
		    vpop = bits >> 18 & 1, xs = bits >> 19 & 1, xy = bits >> 20 & 1, xz = bits >> 21 & 1;
		if (sse42 && !sse41) continue;
		if (avx && !sse42) continue;
		if (avx2 && !avx) continue;
		if (f && !avx2) continue;
		if ((dq | cd | bw | vl | vbmi2 | vnni | bitalg | vpop) && !f) continue;
		if (!osx && (xs | xy | xz)) continue;
		if (xy && !(xs && avx)) continue;
		if (xz && !(xy && f)) continue;
		if (avoton && avx) continue;
		if (idx++ % vk_nshards != vk_shard) continue;
		if (vk_deadline_hit()) { vk_stat("deadline_skipped", 1); continue; }
		struct cfg c;
		c.l1a = avoton ? 0x000406d8 : 0x000806f8;
		c.l1c = (1u << 0) | (1u << 1) | (1u << 9) | (1u << 23) | (1u << 25) | (sse41 << 19) | (sse42 << 20) | ((uint32_t)osx << 27) | ((uint32_t)avx << 28);
		c.l7b = ((uint32_t)avx2 << 5) | ((uint32_t)f << 16) | ((uint32_t)dq << 17) | ((uint32_t)cd << 28) | ((uint32_t)sha << 29) | ((uint32_t)bw << 30) | ((uint32_t)vl << 31) | (avx2 << 3) | (avx2 << 8);
		c.l7c = (vbmi2 << 6) | (gfni << 8) | (vaes << 9) | (vpcl << 10) | (vnni << 11) | (bitalg << 12) | (vpop << 14);
		c.xcr0 = (osx ? 1 : 0) | (xs << 1) | (xy << 2) | (xz ? 0xe0 : 0);
		set_cfg(&c);
		check_cfg(&c, 0);
	}
	vcpu_mode = 0;
	for (int i = 0; i < nents; i++) *ents[i].slot = ents[i].mbinit;
	vk_sample("config cpuid1.ecx=SSE4.1|SSE4.2|OSXSAVE|AVX cpuid7.ebx=AVX2|AVX512F|SHA (no VL/BW/DQ/CD) xcr0=0xe7: run _sha256_ctx_mgr_submit_dispatch_init, read _sha256_ctx_mgr_submit_dispatched, compare measured ISA classes of the target with the classes available");
	vk_finish();
	return 0;
}
