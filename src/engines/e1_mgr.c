/* E1 - multi-buffer hash manager explorer (DESIGN.md section 4, E1).
 *  mode=explore : explicit-state search on the real manager + K contexts (state = byte image, snapshot /
 *                 restore by memcpy), deviation-bounded around four driving policies, with a boring
 *                 reference model; invariants of C06, digests of C01, rejections of C11 after every transition.
 *  mode=seg     : all two/three-piece segmentations of one message under several lane occupancies (C01).
 *  mode=len     : running total teleported to just below 2^29 / 2^32 / 2^32+2^29, then all short
 *                 segmentations across the boundary (C15); thorough adds genuine > 4 GiB streams.
 * Every algorithm x family symbol of the freshly built library is an instance. */
#define _GNU_SOURCE
#include "vkit.h"
#include "ref.h"
#include <stdlib.h>
#include <stddef.h>
#include <stdarg.h>
#include <sys/mman.h>
#include <unistd.h>
#include <sha1_mb.h>
#include <sha256_mb.h>
#include <sha512_mb.h>
#include <md5_mb.h>
#include <sm3_mb.h>
#include <isal_crypto_api.h>

static const char *prop = "C06";
static const char *mode = "explore";
static int pair_mode, guard_mode, public_entry;

/* ---------- algorithm descriptors ---------- */
struct alg {
	const char *name; enum ref_alg ref; unsigned block, dwords, wsize; int digest_bytes;
	size_t ctx_size, mgr_size, o_status, o_error, o_total, o_user, o_digest, o_job_user, o_pbl, o_inlen;
	unsigned max_lanes;
};
#define ALGDEF(nm, UP, REF, BYTES) { nm, REF, ISAL_##UP##_BLOCK_SIZE, ISAL_##UP##_DIGEST_NWORDS, sizeof(((ISAL_##UP##_HASH_CTX *)0)->job.result_digest[0]), BYTES, \
	sizeof(ISAL_##UP##_HASH_CTX), sizeof(ISAL_##UP##_HASH_CTX_MGR), offsetof(ISAL_##UP##_HASH_CTX, status), offsetof(ISAL_##UP##_HASH_CTX, error), \
	offsetof(ISAL_##UP##_HASH_CTX, total_length), offsetof(ISAL_##UP##_HASH_CTX, user_data), offsetof(ISAL_##UP##_HASH_CTX, job.result_digest), \
	offsetof(ISAL_##UP##_HASH_CTX, job.user_data), offsetof(ISAL_##UP##_HASH_CTX, partial_block_buffer_length), offsetof(ISAL_##UP##_HASH_CTX, incoming_buffer_length), ISAL_##UP##_MAX_LANES }
static const struct alg algs[5] = {
	ALGDEF("sha1", SHA1, REF_SHA1, 0), ALGDEF("sha256", SHA256, REF_SHA256, 0), ALGDEF("sha512", SHA512, REF_SHA512, 0),
	ALGDEF("md5", MD5, REF_MD5, 1), ALGDEF("sm3", SM3, REF_SM3, 1),
};
struct fam { int alg; const char *name; int need; };
static const struct fam fams[] = {
	{ 0, "base", VK_F_BASE }, { 0, "sse", VK_F_SSE }, { 0, "avx", VK_F_AVX }, { 0, "avx2", VK_F_AVX2 }, { 0, "avx512", VK_F_AVX512 }, { 0, "sse_ni", VK_F_SHANI }, { 0, "avx512_ni", VK_F_AVX512_SHANI },
	{ 1, "base", VK_F_BASE }, { 1, "sse", VK_F_SSE }, { 1, "avx", VK_F_AVX }, { 1, "avx2", VK_F_AVX2 }, { 1, "avx512", VK_F_AVX512 }, { 1, "sse_ni", VK_F_SHANI }, { 1, "avx512_ni", VK_F_AVX512_SHANI },
	{ 2, "base", VK_F_BASE }, { 2, "sse", VK_F_SSE }, { 2, "avx", VK_F_AVX }, { 2, "avx2", VK_F_AVX2 }, { 2, "avx512", VK_F_AVX512 }, { 2, "sb_sse4", VK_F_SSE },
	{ 3, "base", VK_F_BASE }, { 3, "sse", VK_F_SSE }, { 3, "avx", VK_F_AVX }, { 3, "avx2", VK_F_AVX2 }, { 3, "avx512", VK_F_AVX512 },
	{ 4, "base", VK_F_BASE }, { 4, "avx2", VK_F_AVX2 }, { 4, "avx512", VK_F_AVX512 },
};
#define NFAM (sizeof fams / sizeof *fams)

/* ---------- instance ---------- */
#define MAXK 36
static const struct alg *A;
static const struct fam *F;
static char inst[64];
static void *f_init, *f_submit, *f_flush;
static char n_init[80], n_submit[80], n_flush[80];
static void **slot_init, **slot_submit, **slot_flush;     /* dispatch slots (public-entry mode) */
static void *pub_init, *pub_submit, *pub_flush;
static char pn_init[80], pn_submit[80], pn_flush[80];
static unsigned L, K;
static vk_slot s_arena, s_pool, s_outp;
static uint8_t *mgr, *ctxs;          /* inside s_arena */
static size_t arena_off, arena_size, ctx_stride;
#define POOLSZ (8192 + 8 * 128 + 64)
#define CTX(i) (ctxs + (size_t)(i) * ctx_stride)
#define FIELD(c, off, type) (*(type *)((c) + (off)))

/* ---------- reference model ---------- */
enum { M_FRESH, M_IDLE, M_INFLIGHT, M_COMPLETE };
struct mctx { int st; ref_hash h; uint64_t bytes, skipped; int last; int nseg; uint8_t dig[64]; };
struct model { struct mctx c[MAXK]; int ninflight; int nstarted; int nsteps; int nflush_null; };
static struct model M;

static int ctx_index(void *p)
{
	uintptr_t a = (uintptr_t)p, b = (uintptr_t)ctxs;
	if (a < b || (a - b) % ctx_stride || (a - b) / ctx_stride >= K) return -1;
	return (int)((a - b) / ctx_stride);
}
static vk_slot s_cbuf[MAXK];     /* guard mode: one guarded input slot per context */
static int guard_flip;
static const uint8_t *buf_for_len(int ci, uint64_t bytes, uint32_t len)
{
	const uint8_t *src = s_pool.ro + ((ci * 1021 + bytes * 7) & 0xfff);
	if (!guard_mode) return src;
	/* a context has at most one segment in flight, so its slot is free when it may submit again;
	 * end-flush and start-flush placements alternate */
	vk_slot *sl = &s_cbuf[ci];
	size_t off = vk_place(sl, len, (guard_flip++ & 1) ? VK_START : VK_END, 1, 0);
	memcpy(sl->rw + off, src, len);
	return sl->ro + off;
}

static int digest_matches(const uint8_t *c, const uint8_t *std)
{
	const uint8_t *d = c + A->o_digest;
	if (A->digest_bytes) return !memcmp(d, std, A->dwords * A->wsize);
	for (unsigned i = 0; i < A->dwords; i++) {
		if (A->wsize == 4) { uint32_t w; memcpy(&w, d + 4 * i, 4); uint32_t e = ((uint32_t)std[4 * i] << 24) | (std[4 * i + 1] << 16) | (std[4 * i + 2] << 8) | std[4 * i + 3]; if (w != e) return 0; }
		else { uint64_t w, e = 0; memcpy(&w, d + 8 * i, 8); for (int k = 0; k < 8; k++) e = (e << 8) | std[8 * i + k]; if (w != e) return 0; }
	}
	return 1;
}

/* ---------- symbols ---------- */
typedef struct { uint8_t kind; uint8_t ctx; uint8_t flags; uint32_t len; int8_t expect_err; } sym;   /* kind 0 flush, 1 valid submit, 2 rejected submit */
static const char *flagname(int f) { static const char *n[4] = { "UPDATE", "FIRST", "LAST", "ENTIRE" }; static char b[8]; if (f >= 0 && f < 4) return n[f]; snprintf(b, sizeof b, "0x%x", f); return b; }
static int sym_str(const sym *s, char *b, size_t n)
{
	if (s->kind == 0) return snprintf(b, n, "FLUSH");
	return snprintf(b, n, "%s(c%d,%s,%u)", s->kind == 2 ? "REJ" : "SUBMIT", s->ctx, flagname(s->flags), s->len);
}
#define MAXTRACE 420
static sym trace[MAXTRACE]; static int tracelen;
static char *trace_json(void)
{
	static char b[MAXTRACE * 40 + 200];
	int o = snprintf(b, sizeof b, "{\"instance\":\"%s\",\"ops\":[", inst);
	for (int i = 0; i < tracelen; i++) { char t[48]; sym_str(&trace[i], t, sizeof t); o += snprintf(b + o, sizeof b - o, "%s\"%s\"", i ? "," : "", t); }
	snprintf(b + o, sizeof b - o, "]}");
	return b;
}
static void viol(const char *p, const char *what, const char *fmt, ...) __attribute__((format(printf, 3, 4)));
static void viol(const char *p, const char *what, const char *fmt, ...)
{
	char d[600], key[200], tr[200] = ""; va_list ap;
	va_start(ap, fmt); vsnprintf(d, sizeof d, fmt, ap); va_end(ap);
	int o = 0;
	for (int i = tracelen > 6 ? tracelen - 6 : 0; i < tracelen; i++) { char t[48]; sym_str(&trace[i], t, sizeof t); o += snprintf(tr + o, sizeof tr - o, "%s ", t); }
	snprintf(key, sizeof key, "%s:%s", inst, what);
	vk_violation(p, key, trace_json(), "%s [%s; trace length %d, tail: %s]", d, inst, tracelen, tr);
}

/* ---------- calls ---------- */
static int faulted;
static void fault_report(const char *fn)
{
	char a[160], r[160], what[300], obj[64];
	vk_describe_addr(vk_last_fault.addr, a, sizeof a); vk_describe_rip(vk_last_fault.rip, r, sizeof r);
	snprintf(obj, sizeof obj, "%.60s", a); for (char *c = obj; *c; c++) if (*c == '+' || *c == '-' || *c == '(') { *c = 0; break; }
	snprintf(what, sizeof what, "fault:%s:%s", obj, vk_last_fault.sig == 14 ? "hang" : vk_last_fault.is_write ? "write" : "read");
	viol("C08", what, "%s: signal %d at %s accessing %s", fn, vk_last_fault.sig, r, a);
	if (!strcmp(prop, "C01") || !strcmp(prop, "C06") || !strcmp(prop, "C11") || !strcmp(prop, "C15")) viol(prop, vk_last_fault.sig == 14 ? "no_result:hang" : "no_result:fault", "%s did not return (signal %d at %s): a valid call sequence produced no result", fn, vk_last_fault.sig, r);
}
static int last_ret;     /* return code of the public wrapper */
static unsigned call_alarm_ms = 5000;
static void *do_init(void)
{
	faulted = 0;
	if (VK_TRY()) { if (public_entry) last_ret = (int)VCALLN(pub_init, pn_init, AP(mgr)); else VCALLN(f_init, n_init, AP(mgr)); VK_END_TRY(); }
	else { faulted = 1; fault_report(n_init); }
	return NULL;
}
static void *do_submit(void *c, const void *buf, uint32_t len, int flags)
{
	void *r = NULL;
	faulted = 0;
	vk_alarm(call_alarm_ms);
	if (VK_TRY()) {
		if (public_entry) { void **out = (void **)(s_outp.rw + s_outp.size - 8); *out = (void *)0x1; last_ret = (int)VCALLN(pub_submit, pn_submit, AP(mgr), AP(c), AP(out), AP(buf), A32(len), A32(flags)); r = *out; }
		else r = (void *)VCALLN(f_submit, n_submit, AP(mgr), AP(c), AP(buf), A32(len), A32(flags));
		VK_END_TRY();
	} else { faulted = 1; fault_report(n_submit); }
	vk_alarm(0);
	return r;
}
static void *do_flush(void)
{
	void *r = NULL;
	faulted = 0;
	vk_alarm(call_alarm_ms);
	if (VK_TRY()) {
		if (public_entry) { void **out = (void **)(s_outp.rw + s_outp.size - 8); *out = (void *)0x1; last_ret = (int)VCALLN(pub_flush, pn_flush, AP(mgr), AP(out)); r = *out; }
		else r = (void *)VCALLN(f_flush, n_flush, AP(mgr));
		VK_END_TRY();
	} else { faulted = 1; fault_report(n_flush); }
	vk_alarm(0);
	return r;
}

/* hidden-input environment: prefill of not-yet-defined object bytes + trampoline poison */
static uint8_t env_prefill = 0xd7;
static void fresh_system(void)
{
	vk_canary_fill(&s_arena);
	memset(s_arena.rw + arena_off, env_prefill, arena_size);
	memset(&M, 0, sizeof M);
	do_init();
	for (unsigned i = 0; i < K; i++) {
		uint8_t *c = CTX(i);
		/* isal_hash_ctx_init: defines status and error only */
		FIELD(c, A->o_status, uint32_t) = ISAL_HASH_CTX_STS_COMPLETE;
		FIELD(c, A->o_error, int32_t) = ISAL_HASH_CTX_ERROR_NONE;
		FIELD(c, A->o_user, void *) = (void *)(uintptr_t)(0xc0ffee00 + i);
		M.c[i].st = M_FRESH;
	}
	tracelen = 0;
}

/* ---------- one transition with all oracles; returns 0 ok, 1 stop this branch ---------- */
static uint8_t *pre_img;
static const uint8_t *last_buf;
static void *last_r;
static int apply(const sym *s)
{
	void *r;
	int pre_inflight = M.ninflight;
	if (tracelen < MAXTRACE) trace[tracelen++] = *s;
	memcpy(pre_img, s_arena.rw + arena_off, arena_size);
	M.nsteps++;
	vk_stat("transitions", 1);
	if (s->kind == 0) {
		r = do_flush();
		if (faulted) return 1;
		if (public_entry && last_ret != 0) { viol("C11", "valid_flush_reported_failed", "public flush returned %d", last_ret); return 1; }
		if ((r == NULL) != (pre_inflight == 0)) { viol("C06", r ? "flush_returned_without_jobs" : "flush_null_with_jobs_in_flight", "flush returned %s while the model holds %d contexts in flight", r ? "a context" : "NULL", pre_inflight); return 1; }
		if (!r) M.nflush_null++;
	} else {
		uint8_t *c = CTX(s->ctx);
		struct mctx *mc = &M.c[s->ctx];
		const uint8_t *buf = buf_for_len(s->ctx, mc->bytes, s->len);
		last_buf = buf;
		r = do_submit(c, buf, s->len, s->flags);
		if (faulted) return 1;
		if (s->kind == 2) {
			/* rejection: handed straight back, matching code, nothing else changed */
			vk_stat("rejections_injected", 1);
			last_r = r;
			if (r != c) { viol("C11", "reject_wrong_return", "rejected submit returned %p instead of the submitted context", r); return 1; }
			if (FIELD(c, A->o_error, int32_t) != s->expect_err) { viol("C11", "reject_wrong_code", "rejected submit set error %d, expected %d", FIELD(c, A->o_error, int32_t), s->expect_err); return 1; }
			if (public_entry) {
				int exp = s->expect_err == ISAL_HASH_CTX_ERROR_INVALID_FLAGS ? ISAL_CRYPTO_ERR_INVALID_FLAGS : s->expect_err == ISAL_HASH_CTX_ERROR_ALREADY_PROCESSING ? ISAL_CRYPTO_ERR_ALREADY_PROCESSING : ISAL_CRYPTO_ERR_ALREADY_COMPLETED;
				if (last_ret != exp) { viol("C11", "reject_wrong_retcode", "public submit returned %d for a rejection, expected %d", last_ret, exp); return 1; }
			}
			FIELD(pre_img + (c - (s_arena.rw + arena_off)), A->o_error, int32_t) = s->expect_err;
			if (memcmp(pre_img, s_arena.rw + arena_off, arena_size)) {
				size_t d = 0; while (pre_img[d] == s_arena.rw[arena_off + d]) d++;
				const char *where = d < (size_t)(ctxs - mgr) ? "manager" : (d - (ctxs - mgr)) / ctx_stride == s->ctx ? "rejected context" : "another context";
				viol("C11", "reject_side_effect", "rejected submit modified the %s (byte offset %zu of the arena)", where, d);
				return 1;
			}
			/* the error code stays until the next accepted submit; model unchanged */
			return 0;
		}
		/* accepted submit: update the model */
		if (s->flags & ISAL_HASH_FIRST) { ref_hash_init(&mc->h, A->ref); mc->bytes = 0; mc->skipped = 0; mc->nseg = 0; M.nstarted++; }
		ref_hash_update(&mc->h, buf, s->len);
		mc->bytes += s->len; mc->nseg++;
		mc->last = (s->flags & ISAL_HASH_LAST) != 0;
		if (mc->last) ref_hash_final(&mc->h, mc->skipped, mc->dig);
		mc->st = M_INFLIGHT; M.ninflight++;
		if (public_entry && last_ret != 0) {
			viol("C11", "valid_call_reported_failed", "public submit of a valid %s segment returned %d (context error field %d)", flagname(s->flags), last_ret, r ? FIELD((uint8_t *)r, A->o_error, int32_t) : 0);
			return 1;
		}
	}
	last_r = r;
	/* the returned context */
	if (r) {
		int ri = ctx_index(r);
		if (ri < 0) { viol("C06", "returned_unknown_pointer", "call returned %p which is not one of the caller's contexts", r); return 1; }
		struct mctx *mc = &M.c[ri];
		uint8_t *c = CTX(ri);
		if (mc->st != M_INFLIGHT) { viol("C06", "returned_not_in_flight", "context c%d handed back although the model does not hold it in flight (duplicate or spurious return)", ri); return 1; }
		uint32_t st = FIELD(c, A->o_status, uint32_t);
		if (st & ISAL_HASH_CTX_STS_PROCESSING) { viol("C06", "returned_while_processing", "context c%d handed back with status 0x%x (PROCESSING bit set)", ri, st); return 1; }
		if (mc->last ? st != ISAL_HASH_CTX_STS_COMPLETE : st != ISAL_HASH_CTX_STS_IDLE) { viol("C06", "returned_wrong_status", "context c%d handed back with status 0x%x, expected %s", ri, st, mc->last ? "COMPLETE" : "IDLE"); return 1; }
		/* The error field of a context that was rejected while in flight legitimately keeps its code until that
		 * context's next accepted submit (property anchor), so it is not an oracle here; what the property forbids
		 * is a later *valid call* being reported as failed, which the public-entry run checks on the return code. */
		if (FIELD(c, A->o_total, uint64_t) != mc->bytes) { viol("C15", "total_length", "context c%d reports total_length %llu, sum of segments is %llu", ri, (unsigned long long)FIELD(c, A->o_total, uint64_t), (unsigned long long)mc->bytes); return 1; }
		if (mc->last) {
			vk_stat("digests_checked", 1);
			if (!digest_matches(c, mc->dig)) { viol(!strcmp(mode, "len") ? "C15" : "C01", "digest", "context c%d completed with a digest different from the standard hash of its %llu bytes (%d segments)", ri, (unsigned long long)mc->bytes, mc->nseg); if (!pair_mode) return 1; /* C20: go on to the paired comparison */ }
			mc->st = M_COMPLETE;
		} else mc->st = M_IDLE;
		M.ninflight--;
	}
	/* everything still in flight is marked PROCESSING; nothing else was touched */
	if ((unsigned)M.ninflight > L) { viol("C06", "more_jobs_than_lanes", "%d contexts in flight, family has %u lanes", M.ninflight, L); return 1; }
	vk_stat_max("max_in_flight", M.ninflight);
	for (unsigned i = 0; i < K; i++) {
		uint8_t *c = CTX(i);
		if (FIELD(c, A->o_user, void *) != (void *)(uintptr_t)(0xc0ffee00 + i)) { viol("C06", "user_data_modified", "user_data of c%u changed", i); return 1; }
		if (M.c[i].st == M_INFLIGHT) {
			if (!(FIELD(c, A->o_status, uint32_t) & ISAL_HASH_CTX_STS_PROCESSING)) { viol("C06", "in_flight_not_processing", "context c%u is held by the manager but its status is 0x%x", i, FIELD(c, A->o_status, uint32_t)); return 1; }
		} else if (c != (uint8_t *)r && !(s->kind && s->ctx == i)) {
			size_t off = c - (s_arena.rw + arena_off);
			if (memcmp(pre_img + off, c, A->ctx_size)) { viol("C06", "idle_context_modified", "context c%u is not in flight and was not part of this call, but its bytes changed", i); return 1; }
		}
	}
	{ long bad = vk_canary_check(&s_arena, arena_off, arena_size); if (bad >= 0) { viol("C08", "canary:arena", "write outside manager/context objects at arena offset %ld", bad - (long)arena_off); return 1; } }
	return 0;
}

/* ---------- alphabet ---------- */
static uint32_t LAM[16]; static int NLAM = 8;     /* policies use the first 7; the 8th (padding threshold) and the extended lengths of the thorough tier only occur as deviations */
static int enum_symbols(sym *out)
{
	int n = 0, fresh = -1, idle[2] = { -1, -1 }, infl = -1, infl2 = -1, comp = -1;
	for (unsigned i = 0; i < K; i++) {
		int st = M.c[i].st;
		if ((st == M_FRESH || st == M_COMPLETE) && fresh < 0) fresh = i;
		if (st == M_COMPLETE && comp < 0) comp = i;
		if (st == M_IDLE) { if (idle[0] < 0) idle[0] = i; else if (idle[1] < 0) idle[1] = i; }
		if (st == M_INFLIGHT) { if (infl < 0) infl = i; else infl2 = i; }
	}
	if (M.c[K - 1].st == M_FRESH && comp < 0) { /* a never-used context also rejects UPDATE/LAST as completed */ comp = K - 1; }
	out[n++] = (sym){ 0, 0, 0, 0, 0 };
	for (int li = 0; li < NLAM; li++) {
		if (fresh >= 0) { out[n++] = (sym){ 1, fresh, ISAL_HASH_ENTIRE, LAM[li], 0 }; out[n++] = (sym){ 1, fresh, ISAL_HASH_FIRST, LAM[li], 0 }; }
		for (int k = 0; k < 2; k++) if (idle[k] >= 0) { out[n++] = (sym){ 1, idle[k], ISAL_HASH_UPDATE, LAM[li], 0 }; out[n++] = (sym){ 1, idle[k], ISAL_HASH_LAST, LAM[li], 0 }; }
	}
	if (idle[0] >= 0) { out[n++] = (sym){ 1, idle[0], ISAL_HASH_FIRST, LAM[2], 0 }; out[n++] = (sym){ 1, idle[0], ISAL_HASH_ENTIRE, LAM[4], 0 }; }   /* restart mid-stream */
	/* rejected submits */
	int tgt = fresh >= 0 ? fresh : idle[0];
	if (tgt >= 0) { out[n++] = (sym){ 2, tgt, 4, LAM[3], ISAL_HASH_CTX_ERROR_INVALID_FLAGS }; out[n++] = (sym){ 2, tgt, 0x11, LAM[1], ISAL_HASH_CTX_ERROR_INVALID_FLAGS }; out[n++] = (sym){ 2, tgt, 0xff, 0, ISAL_HASH_CTX_ERROR_INVALID_FLAGS }; }
	if (idle[0] >= 0 && tgt != idle[0]) out[n++] = (sym){ 2, idle[0], 0x10, LAM[4], ISAL_HASH_CTX_ERROR_INVALID_FLAGS };   /* then continued by UPDATE/LAST */
	if (infl >= 0) {
		out[n++] = (sym){ 2, infl, ISAL_HASH_ENTIRE, LAM[3], ISAL_HASH_CTX_ERROR_ALREADY_PROCESSING };
		out[n++] = (sym){ 2, infl, ISAL_HASH_UPDATE, LAM[1], ISAL_HASH_CTX_ERROR_ALREADY_PROCESSING };
		out[n++] = (sym){ 2, infl, ISAL_HASH_LAST, 0, ISAL_HASH_CTX_ERROR_ALREADY_PROCESSING };
		out[n++] = (sym){ 2, infl, 8, LAM[3], ISAL_HASH_CTX_ERROR_INVALID_FLAGS };      /* double error: flags take precedence */
	}
	if (infl2 >= 0 && vk_thorough) {   /* the youngest job in flight sits in another lane than the oldest */
		out[n++] = (sym){ 2, infl2, ISAL_HASH_ENTIRE, LAM[1], ISAL_HASH_CTX_ERROR_ALREADY_PROCESSING };
		out[n++] = (sym){ 2, infl2, ISAL_HASH_LAST, LAM[3], ISAL_HASH_CTX_ERROR_ALREADY_PROCESSING };
	}
	if (comp >= 0) { out[n++] = (sym){ 2, comp, ISAL_HASH_UPDATE, LAM[4], ISAL_HASH_CTX_ERROR_ALREADY_COMPLETED }; out[n++] = (sym){ 2, comp, ISAL_HASH_LAST, LAM[1], ISAL_HASH_CTX_ERROR_ALREADY_COMPLETED }; }
	return n;
}
static int lowest(int st1, int st2) { for (unsigned i = 0; i < K; i++) if (M.c[i].st == st1 || M.c[i].st == st2) return i; return -1; }

/* ---------- driving policies: pure functions of the model ---------- */
static int policy_next(int pol, sym *s)
{
	int c;
	switch (pol) {
	case 0: /* entire-fill then drain */
		if (M.nstarted < (int)(2 * L + 2) && (c = lowest(M_FRESH, M_COMPLETE)) >= 0) { *s = (sym){ 1, c, ISAL_HASH_ENTIRE, LAM[(M.nstarted * 3 + 1) % 7], 0 }; return 1; }
		if (M.ninflight > 0 || M.nflush_null == 0) { *s = (sym){ 0 }; return 1; }
		return 0;
	case 1: /* streaming FIRST / UPDATE / LAST, round robin */
		if (M.nsteps < (int)(3 * (L + 2))) {
			for (unsigned i = 0; i < K; i++) { unsigned j = (i + M.nsteps) % K; if (M.c[j].st == M_IDLE) { *s = (sym){ 1, j, M.c[j].nseg >= 2 ? ISAL_HASH_LAST : ISAL_HASH_UPDATE, LAM[(M.nsteps + j) % 7], 0 }; return 1; } }
			if ((c = lowest(M_FRESH, M_COMPLETE)) >= 0) { *s = (sym){ 1, c, ISAL_HASH_FIRST, LAM[(M.nsteps * 2 + 3) % 7], 0 }; return 1; }
			*s = (sym){ 0 }; return 1;
		}
		if (M.ninflight > 0) { *s = (sym){ 0 }; return 1; }
		if ((c = lowest(M_IDLE, M_IDLE)) >= 0) { *s = (sym){ 1, c, ISAL_HASH_LAST, LAM[M.nsteps % 7], 0 }; return 1; }
		if (M.nflush_null == 0) { *s = (sym){ 0 }; return 1; }
		return 0;
	case 2: /* flush after every submit: occupancy one */
		if (M.nsteps >= 28) return 0;
		if (M.ninflight > 0 || (M.nsteps & 1)) { *s = (sym){ 0 }; return 1; }
		if ((c = lowest(M_IDLE, M_IDLE)) >= 0) { *s = (sym){ 1, c, ISAL_HASH_LAST, LAM[(M.nsteps / 2) % 7], 0 }; return 1; }
		if ((c = lowest(M_FRESH, M_COMPLETE)) >= 0) { *s = (sym){ 1, c, (M.nsteps & 2) ? ISAL_HASH_FIRST : ISAL_HASH_ENTIRE, LAM[(M.nsteps / 2 + 2) % 7], 0 }; return 1; }
		return 0;
	case 3: { /* occupancy sweep: k jobs then drain, k = 1..L */
		/* phase derived from nstarted: wave w has w jobs; total jobs before wave w is w(w-1)/2 */
		unsigned w = 1, before = 0;
		while (before + w <= (unsigned)M.nstarted) { before += w; w++; }
		unsigned in_wave = M.nstarted - before;
		if (w > L || w > 8) { if (M.ninflight > 0) { *s = (sym){ 0 }; return 1; } return 0; }
		if (in_wave == 0 && M.ninflight > 0) { *s = (sym){ 0 }; return 1; }    /* drain previous wave */
		if ((c = lowest(M_FRESH, M_COMPLETE)) >= 0) { *s = (sym){ 1, c, ISAL_HASH_ENTIRE, LAM[3 + (M.nstarted % 4)], 0 }; return 1; }
		*s = (sym){ 0 }; return 1; }
	}
	return 0;
}

/* ---------- visited table ---------- */
static uint64_t *vt_key; static uint8_t *vt_bud; static size_t vt_cap, vt_n;
static int vt_check_insert(uint64_t k, int budget)
{
	k |= 1;
	size_t j = (k >> 1) & (vt_cap - 1);
	while (vt_key[j]) {
		if (vt_key[j] == k) { if (vt_bud[j] >= budget + 1) return 1; vt_bud[j] = budget + 1; return 0; }
		j = (j + 1) & (vt_cap - 1);
	}
	if (vt_n * 10 > vt_cap * 7) { vk_stat("visited_table_full_inserts_dropped", 1); return 0; }
	vt_key[j] = k; vt_bud[j] = budget + 1; vt_n++;
	return 0;
}
static uint64_t state_hash(int pol)
{
	uint64_t h = vk_hash(s_arena.rw + arena_off, arena_size, pol + 1);
	/* model essentials that are not functions of the image: reference hash progress is, counters are not */
	uint32_t m[4] = { (uint32_t)M.nstarted, (uint32_t)M.nsteps, (uint32_t)M.nflush_null, (uint32_t)M.ninflight };
	return vk_hash(m, sizeof m, h);
}

/* ---------- the search ---------- */
struct frame { uint8_t *img, *imgB; struct model m; int tl; };
static struct frame *frames; static int maxdepth = 400;
static uint64_t abs_states;
static int use_visited = 1;
static int only_valid_deviations;
static int nsub = 1, sub = 0, top_budget;     /* sub-sharding: first deviations (depth, symbol) are dealt round-robin to nsub processes */

/* paired environment (C20): a second image, created under a different hidden-input environment, is driven in
 * lock step through the same transitions; it makes no pruning decisions of its own; only what the API defines
 * is compared (returned context, status, error, total length, digest when complete, user data) */
static uint8_t *curB, *tmpA;
static int pair_step(const sym *s)
{
	void *rA = last_r, *rB;
	uint64_t save_poison = vk_call_poison;
	memcpy(tmpA, s_arena.rw + arena_off, arena_size);
	memcpy(s_arena.rw + arena_off, curB, arena_size);
	vk_call_poison = 0xfedcba9876543210ULL;
	if (s->kind == 0) rB = do_flush(); else rB = do_submit(CTX(s->ctx), last_buf, s->len, s->flags);
	vk_call_poison = save_poison;
	vk_stat("pairs", 1);
	int bad = 0;
	if (faulted) bad = 1;
	else if (rA != rB) { viol("C20", "pair_returned_context", "under a different hidden-input environment the call returned c%d instead of c%d", rB ? ctx_index(rB) : -1, rA ? ctx_index(rA) : -1); bad = 1; }
	else for (unsigned i = 0; i < K && !bad; i++) {
		uint8_t *b = CTX(i), *a = tmpA + (b - (s_arena.rw + arena_off));
		if (FIELD(a, A->o_status, uint32_t) != FIELD(b, A->o_status, uint32_t) || FIELD(a, A->o_error, int32_t) != FIELD(b, A->o_error, int32_t) ||
		    (M.c[i].st != M_FRESH && FIELD(a, A->o_total, uint64_t) != FIELD(b, A->o_total, uint64_t)) || FIELD(a, A->o_user, void *) != FIELD(b, A->o_user, void *)) {
			viol("C20", "pair_context_fields", "API-defined fields of c%u (status/error/total_length/user_data) depend on hidden inputs", i); bad = 1;
		} else if (M.c[i].st == M_COMPLETE && memcmp(a + A->o_digest, b + A->o_digest, A->dwords * A->wsize)) { viol("C20", "pair_digest", "digest of c%u depends on hidden inputs", i); bad = 1; }
	}
	memcpy(curB, s_arena.rw + arena_off, arena_size);
	memcpy(s_arena.rw + arena_off, tmpA, arena_size);
	return bad;
}
static void explore(int pol, int depth, int budget)
{
	struct frame *fr = &frames[depth];
	sym pn; sym syms[160];
	int have_pol;
	if (depth >= maxdepth - 1) { vk_stat("depth_cap_hits", 1); return; }
	if (vk_deadline_hit()) { vk_stat("deadline_cut_branches", 1); return; }
	memcpy(fr->img, s_arena.rw + arena_off, arena_size); fr->m = M; fr->tl = tracelen;
	if (pair_mode) memcpy(fr->imgB, curB, arena_size);
	have_pol = policy_next(pol, &pn);
	int n = budget > 0 ? enum_symbols(syms) : 0;
	for (int i = -1; i < n; i++) {
		const sym *s;
		int nb = budget;
		if (i < 0) { if (!have_pol) continue; s = &pn; }
		else {
			s = &syms[i];
			if (have_pol && !memcmp(s, &pn, sizeof *s)) continue;
			if (nsub > 1 && budget == top_budget && (((unsigned)depth * 2654435761u + (unsigned)i * 40503u) >> 9) % (unsigned)nsub != (unsigned)sub) continue;
			if (only_valid_deviations && s->kind == 2) continue;
			nb = budget - 1;
		}
		memcpy(s_arena.rw + arena_off, fr->img, arena_size); M = fr->m; tracelen = fr->tl;
		if (pair_mode) memcpy(curB, fr->imgB, arena_size);
		if (apply(s)) continue;
		if (pair_mode && pair_step(s)) continue;
		vk_stat_max("max_depth", depth + 1);
		uint64_t h = state_hash(pol);
		if (use_visited) { if (vt_check_insert(h, nb)) { vk_stat("revisits_pruned", 1); continue; } }
		vk_stat("states", 1);
		{ /* abstraction actually reached: (occupancy, multiset of statuses) */
			uint32_t ab[6] = { (uint32_t)M.ninflight, 0, 0, 0, 0, 0 };
			for (unsigned c = 0; c < K; c++) ab[1 + M.c[c].st]++;
			vk_distinct("abstract_states", vk_hash(ab, sizeof ab, vk_hash(inst, strlen(inst), 9)));
		}
		explore(pol, depth + 1, nb);
	}
	memcpy(s_arena.rw + arena_off, fr->img, arena_size); M = fr->m; tracelen = fr->tl;
	if (pair_mode) memcpy(curB, fr->imgB, arena_size);
}

/* ---------- instance set-up ---------- */
static int setup_instance(const struct fam *f)
{
	F = f; A = &algs[f->alg];
	snprintf(inst, sizeof inst, "%s_%s%s", A->name, f->name, public_entry ? "@public" : "");
	snprintf(n_init, sizeof n_init, "_%s_ctx_mgr_init_%s", A->name, f->name);
	snprintf(n_submit, sizeof n_submit, "_%s_ctx_mgr_submit_%s", A->name, f->name);
	snprintf(n_flush, sizeof n_flush, "_%s_ctx_mgr_flush_%s", A->name, f->name);
	f_init = vk_sym(n_init); f_submit = vk_sym(n_submit); f_flush = vk_sym(n_flush);
	if (!f_init || !f_submit || !f_flush) { vk_stat("missing_symbol", 1); vk_note("instance %s: family symbols not present in this build", inst); return 0; }
	if (!vk_host_can(f->need)) { vk_stat("skipped_family_not_executable_on_host", 1); return 0; }
	if (public_entry) {
		char b[96];
		snprintf(pn_init, sizeof pn_init, "isal_%s_ctx_mgr_init", A->name); snprintf(pn_submit, sizeof pn_submit, "isal_%s_ctx_mgr_submit", A->name); snprintf(pn_flush, sizeof pn_flush, "isal_%s_ctx_mgr_flush", A->name);
		pub_init = vk_sym(pn_init); pub_submit = vk_sym(pn_submit); pub_flush = vk_sym(pn_flush);
		snprintf(b, sizeof b, "_%s_ctx_mgr_init_dispatched", A->name); slot_init = vk_sym(b);
		snprintf(b, sizeof b, "_%s_ctx_mgr_submit_dispatched", A->name); slot_submit = vk_sym(b);
		snprintf(b, sizeof b, "_%s_ctx_mgr_flush_dispatched", A->name); slot_flush = vk_sym(b);
		if (!pub_init || !pub_submit || !pub_flush || !slot_init || !slot_submit || !slot_flush) { vk_stat("missing_symbol", 1); return 0; }
		*slot_init = f_init; *slot_submit = f_submit; *slot_flush = f_flush;     /* the pointer, not the code, is set */
	}
	unsigned B = A->block;
	LAM[0] = 0; LAM[1] = 1; LAM[2] = B - 1; LAM[3] = B; LAM[4] = B + 1; LAM[5] = 2 * B + 3; LAM[6] = 7 * B;
	LAM[7] = B - (A->ref == REF_SHA512 ? 16 : 8);     /* first length whose padding needs a second block */
	LAM[8] = LAM[7] - 1; LAM[9] = LAM[7] + 1; LAM[10] = 2 * B - 1; LAM[11] = 2 * B; LAM[12] = 3 * B + 1; LAM[13] = 4 * B;
	ctx_stride = (A->ctx_size + 63) & ~(size_t)63;
	/* probe the number of lanes: equal long jobs until one comes back */
	K = MAXK; L = A->max_lanes;
	arena_size = ((A->mgr_size + 63) & ~(size_t)63) + K * ctx_stride;
	arena_off = vk_place(&s_arena, arena_size, VK_END, 64, 0);
	mgr = s_arena.rw + arena_off; ctxs = mgr + ((A->mgr_size + 63) & ~(size_t)63);
	fresh_system();
	if (faulted) return 0;
	unsigned n = 0; void *r = NULL;
	int save = vk_abi_enabled;
	while (n < K && !r) { r = do_submit(CTX(n), s_pool.ro, 8 * B, ISAL_HASH_FIRST); n++; if (faulted) return 0; }
	vk_abi_enabled = save;
	L = r ? n : A->max_lanes;
	while (do_flush() && !faulted) ;
	K = L + 2; if (K > MAXK) K = MAXK;
	arena_size = ((A->mgr_size + 63) & ~(size_t)63) + K * ctx_stride;
	arena_off = vk_place(&s_arena, arena_size, VK_END, 64, 0);
	mgr = s_arena.rw + arena_off; ctxs = mgr + ((A->mgr_size + 63) & ~(size_t)63);
	vk_note("instance %s: lanes(probed)=%u contexts=%u state image=%zu bytes", inst, L, K, arena_size);
	return 1;
}

/* ISA measurement run (C12 phase 0): a short scripted history per instance that reaches the N-lane kernel
 * (lanes full), the flush path with few and many live lanes (single-buffer / SHA-NI fallbacks) and the padding path */
static void run_trace(void)
{
	long item = 0;
	for (unsigned fi = 0; fi < NFAM; fi++) {
		if (item++ % vk_nshards != vk_shard) continue;
		if (!setup_instance(&fams[fi])) continue;
		free(pre_img); pre_img = malloc(arena_size);
		unsigned B = A->block;
		fresh_system();
		if (faulted) continue;
		sym s;
		s = (sym){ 1, 0, ISAL_HASH_ENTIRE, 3, 0 }; if (apply(&s)) continue;
		s = (sym){ 0 }; apply(&s);
		for (unsigned k = 0; k < L + 1 && k < K; k++) { int c = lowest(M_FRESH, M_COMPLETE); if (c < 0) break; s = (sym){ 1, (uint8_t)c, ISAL_HASH_ENTIRE, B + 1 + (k % 3) * B, 0 }; if (apply(&s)) break; }
		for (int g = 0; g < 64 && M.ninflight > 0; g++) { s = (sym){ 0 }; if (apply(&s)) break; }
		for (unsigned k = 0; k < 2 && k < K; k++) { int c = lowest(M_FRESH, M_COMPLETE); if (c < 0) break; s = (sym){ 1, (uint8_t)c, ISAL_HASH_FIRST, B - 1, 0 }; if (apply(&s)) break; }
		for (int g = 0; g < 8 && M.ninflight > 0; g++) { s = (sym){ 0 }; if (apply(&s)) break; }
		{ int c = lowest(M_IDLE, M_IDLE); if (c >= 0) { s = (sym){ 1, (uint8_t)c, ISAL_HASH_UPDATE, 2 * B + 3, 0 }; apply(&s); } }
		for (int g = 0; g < 8 && M.ninflight > 0; g++) { s = (sym){ 0 }; if (apply(&s)) break; }
		for (int r = 0; r < 2; r++) { int c = lowest(M_IDLE, M_IDLE); if (c >= 0) { s = (sym){ 1, (uint8_t)c, ISAL_HASH_LAST, 1, 0 }; apply(&s); } }
		for (int g = 0; g < 8 && M.ninflight > 0; g++) { s = (sym){ 0 }; if (apply(&s)) break; }
		s = (sym){ 0 }; apply(&s);
		vk_stat("trace_histories", 1);
	}
}

static void run_explore(void)
{
	if (vk_want_trace) { run_trace(); return; }
	const char *v; int d4 = 2, d8 = vk_thorough ? 2 : 1, d16 = vk_thorough ? 2 : 1;
	if (vk_opt("d4", &v)) d4 = atoi(v);
	if (vk_opt("d8", &v)) d8 = atoi(v);
	if (vk_opt("d16", &v)) d16 = atoi(v);
	int d32 = d16 < 1 ? d16 : 1;
	if (vk_opt("d32", &v)) d32 = atoi(v);
	size_t vt_max = (size_t)1 << (vk_thorough ? 26 : 22);
	if (vk_opt("vt", &v)) vt_max = (size_t)1 << atoi(v);
	vt_cap = vt_max;
	int vis_all = vk_opt("visall", &v);
	vt_key = calloc(vt_cap, 8); vt_bud = calloc(vt_cap, 1);
	frames = calloc(maxdepth, sizeof *frames);
	long item = 0;
	if (vk_opt("nsub", &v)) nsub = atoi(v);
	if (nsub < 1) nsub = 1;
	for (unsigned fi = 0; fi < NFAM; fi++) for (int pol = 0; pol < 4; pol++) for (sub = 0; sub < nsub; sub++) {
		if (vk_want_trace && pol != 0 && pol != 2) continue;
		char nm[64]; snprintf(nm, sizeof nm, "%s_%s", algs[fams[fi].alg].name, fams[fi].name);
		if (vk_only && strcmp(vk_only, nm) && strcmp(vk_only, algs[fams[fi].alg].name)) continue;
		if (item++ % vk_nshards != vk_shard) continue;
		if (!setup_instance(&fams[fi])) continue;
		for (int d = 0; d < maxdepth; d++) { free(frames[d].img); frames[d].img = malloc(arena_size); if (pair_mode) { free(frames[d].imgB); frames[d].imgB = malloc(arena_size); } }
		if (pair_mode) { free(curB); free(tmpA); curB = malloc(arena_size); tmpA = malloc(arena_size); }
		free(pre_img); pre_img = malloc(arena_size);
		int dmax = L <= 4 ? d4 : L <= 8 ? d8 : L <= 16 ? d16 : d32;     /* 32 lanes (MD5 AVX-512): d = 2 alone costs 4 CPU-hours */
		NLAM = vk_thorough && L <= 4 && !vk_opt("lam8", &v) ? 14 : 8;
		vt_cap = L >= 8 ? vt_max : (vt_max > ((size_t)1 << 24) ? (size_t)1 << 24 : vt_max);     /* untouched pages of the big table cost nothing */
		if (vk_want_trace) dmax = 0;
		if (public_entry && dmax > 1) dmax = 1;
		for (int d = 0; d <= dmax; d++) {
			if (d == 0 && sub != 0) continue;     /* nothing to split in the deviation-free run */
			top_budget = d;
			/* iterate the bound: 0, 1, 2 ... ; each bound re-explores from scratch with a fresh table */
			memset(vt_key, 0, vt_cap * 8); memset(vt_bud, 0, vt_cap); vt_n = 0;
			use_visited = d <= 2 || vis_all;
			if (pair_mode) { env_prefill = 0x00; vk_call_poison = 0xfedcba9876543210ULL; fresh_system(); memcpy(curB, s_arena.rw + arena_off, arena_size); env_prefill = 0xd7; vk_call_poison = 0x1111111111111111ULL; }
			fresh_system();
			if (faulted) break;
			double t0 = vk_now();
			uint64_t nv0 = vk_nviol;
			explore(pol, 0, d);
			if (vk_deadline_hit()) { vk_note("instance %s policy %d: deadline hit inside bound d=%d (bounds below completed)", inst, pol, d); vk_stat("bounds_cut_by_deadline", 1); break; }
			vk_stat("bounds_completed", 1);
			char bn[64]; snprintf(bn, sizeof bn, "completed_d%d", d); vk_stat(bn, 1);
			(void)t0; (void)nv0;
		}
	}
}

/* ================= mode=seg : segmentations of one message under several occupancies ================= */
static uint8_t seg_ref_dig[520][64]; static uint8_t seg_ref_ok[520];
static void run_seg(void)
{
	long item = 0;
	for (unsigned fi = 0; fi < NFAM; fi++) for (int occ = 0; occ < 4; occ++) {
		char nm[64]; snprintf(nm, sizeof nm, "%s_%s", algs[fams[fi].alg].name, fams[fi].name);
		if (vk_only && strcmp(vk_only, nm) && strcmp(vk_only, algs[fams[fi].alg].name)) continue;
		if (item++ % vk_nshards != vk_shard) continue;
		if (pair_mode && !vk_thorough && (occ == 1 || occ == 2)) continue;      /* paired mode runs every stream twice: alone and lanes-1 only */
		if (!setup_instance(&fams[fi])) continue;
		free(pre_img); pre_img = malloc(arena_size);
		unsigned B = A->block, maxl = 2 * B + 1;
		/* background jobs in flight while the message is streamed */
		unsigned nbg = occ == 0 ? 0 : occ == 1 ? 1 : occ == 2 ? (L > 2 ? L - 2 : 0) : (L > 1 ? L - 1 : 0);
		if (occ && nbg == 0) continue;
		if (occ == 2 && nbg <= 1) continue;
		if (occ == 3 && nbg == (L > 2 ? L - 2 : 0)) continue;
		memset(seg_ref_ok, 0, sizeof seg_ref_ok);
		unsigned step3 = vk_thorough ? 1 : 0;
		for (unsigned l1 = 0; l1 <= maxl; l1++) for (unsigned l2 = 0; l2 <= maxl; l2++) {
			if (vk_want_trace && (l1 % 43 || l2 % 47)) continue;
			if (vk_deadline_hit()) { vk_stat("deadline_skipped", 1); goto next; }
			/* variants: FIRST/LAST ; FIRST/UPDATE/LAST(0) ; ENTIRE(l1) when l2==0 ; (thorough) three pieces */
			for (int var = 0; var < 3 + (int)step3; var++) for (int env = 0; env < (pair_mode ? 2 : 1); env++) {
				unsigned l3 = 0;
				if (var == 2 && l2 != 0) continue;
				if (var == 3) { l3 = (l1 * 7 + l2 * 3) % (B + 2); }
				/* C20: the same stream under two hidden-input environments (object prefill, register/stack poison) */
				if (pair_mode) { env_prefill = env ? 0xff : 0x00; vk_call_poison = env ? 0xfedcba9876543210ULL : 0x1111111111111111ULL; }
				fresh_system();
				if (faulted) goto next;
				for (unsigned b = 0; b < nbg; b++) {
					sym s = { 1, (uint8_t)(1 + b), ISAL_HASH_FIRST, (40 + b) * B, 0 };
					if (apply(&s)) goto nextcase;
				}
				/* the message lives in context 0; pieces are consecutive pool bytes by construction of buf_for */
				sym seq[4]; int ns = 0;
				if (var == 2) seq[ns++] = (sym){ 1, 0, ISAL_HASH_ENTIRE, l1, 0 };
				else {
					seq[ns++] = (sym){ 1, 0, ISAL_HASH_FIRST, l1, 0 };
					if (var == 0) seq[ns++] = (sym){ 1, 0, ISAL_HASH_LAST, l2, 0 };
					else if (var == 1) { seq[ns++] = (sym){ 1, 0, ISAL_HASH_UPDATE, l2, 0 }; seq[ns++] = (sym){ 1, 0, ISAL_HASH_LAST, 0, 0 }; }
					else { seq[ns++] = (sym){ 1, 0, ISAL_HASH_UPDATE, l2, 0 }; seq[ns++] = (sym){ 1, 0, ISAL_HASH_LAST, l3, 0 }; }
				}
				for (int i = 0; i < ns; i++) {
					/* a context still in flight cannot take the next piece: flush until it is handed back */
					int guard = 0;
					while (M.c[0].st == M_INFLIGHT && guard++ < 64) { sym fl = { 0 }; if (apply(&fl)) goto nextcase; }
					if (M.c[0].st == M_INFLIGHT) { viol("C06", "never_returned", "context 0 not handed back after 64 flushes"); goto nextcase; }
					if (apply(&seq[i])) goto nextcase;
				}
				{ int guard = 0; while (M.ninflight > 0 && guard++ < 80) { sym fl = { 0 }; if (apply(&fl)) goto nextcase; } }
				if (M.c[0].st != M_COMPLETE) viol("C06", "stream_not_completed", "message context did not complete after draining (model state %d)", M.c[0].st);
				vk_stat("streams", 1);
				if (pair_mode) {
					static uint8_t d0[64]; static uint32_t st0;
					if (env == 0) { memcpy(d0, CTX(0) + A->o_digest, A->dwords * A->wsize); st0 = FIELD(CTX(0), A->o_status, uint32_t); }
					else { vk_stat("pairs", 1); if (memcmp(d0, CTX(0) + A->o_digest, A->dwords * A->wsize) || st0 != FIELD(CTX(0), A->o_status, uint32_t)) viol("C20", "pair_digest_seg", "digest/status of a %u+%u(+%u) byte message depends on hidden inputs (contents of the context/manager memory before initialisation, registers, dead stack)", l1, l2, l3); }
				}
				{ uint32_t k[5] = { l1, l2, l3, (uint32_t)var, (uint32_t)occ }; vk_distinct("seg_shape", vk_hash(k, sizeof k, vk_hash(inst, strlen(inst), 3))); }
nextcase:;
			}
		}
next:;
	}
}


/* ================= mode=jobs : the scheduler-layer (job level) entry points called directly ================= */
/* _<alg>_mb_mgr_{submit,flush}_<fam> are CPU-specific entry points of their own (declared in *_mb_internal.h); the
 * context layer above them is C code that may save and restore registers the assembly clobbers, so they are also
 * driven directly: submit with 0..L-1 live lanes (early NULL return), submit that fills the lanes, flush with
 * L..1 live lanes, flush on an empty manager. A context doubles as a job (the job is at offset 0). */
static void run_jobs(void)
{
	long item = 0;
	for (unsigned fi = 0; fi < NFAM; fi++) {
		if (!strcmp(fams[fi].name, "base")) continue;
		if (item++ % vk_nshards != vk_shard) continue;
		if (!setup_instance(&fams[fi])) continue;
		char ns[96], nf[96];
		if (!strcmp(F->name, "sb_sse4")) { snprintf(ns, sizeof ns, "_%s_sb_mgr_submit_sse4", A->name); snprintf(nf, sizeof nf, "_%s_sb_mgr_flush_sse4", A->name); }
		else { snprintf(ns, sizeof ns, "_%s_mb_mgr_submit_%s", A->name, F->name); snprintf(nf, sizeof nf, "_%s_mb_mgr_flush_%s", A->name, F->name); }
		void *js = vk_sym(ns), *jf = vk_sym(nf);
		if (!js && strstr(F->name, "_ni")) { char base[32]; snprintf(base, sizeof base, "%.*s", (int)(strlen(F->name) - 3), F->name); snprintf(ns, sizeof ns, "_%s_mb_mgr_submit_%s", A->name, base); js = vk_sym(ns); }   /* avx512_ni shares the avx512 submit */
		if (!js || !jf) { vk_note("instance %s: no job-level symbols %s / %s", inst, ns, nf); vk_stat("missing_symbol", 1); continue; }
		unsigned B = A->block;
		size_t o_buf = 0, o_len = 8;      /* ISAL_*_JOB: buffer, len, aligned digest */
		for (int round = 0; round < (vk_thorough ? 12 : 4); round++) {
			vk_canary_fill(&s_arena); memset(s_arena.rw + arena_off, 0, arena_size);
			do_init();
			if (faulted) break;
			unsigned njobs = L + 2 + round; if (njobs > K) njobs = K;
			ref_hash exp[MAXK]; int pending[MAXK]; memset(pending, 0, sizeof pending);
			int live = 0, bad = 0;
			for (unsigned j = 0; j <= njobs + L + 2 && !bad; j++) {
				void *r = NULL; int fl = j >= njobs;
				faulted = 0;
				if (!fl) {
					uint8_t *job = CTX(j);
					uint32_t nblk = 1 + (j * 3 + round) % 5;
					const uint8_t *buf = s_pool.ro + ((j * 197 + round * 64) & 0x7ff);
					FIELD(job, o_buf, const uint8_t *) = buf; FIELD(job, o_len, uint64_t) = nblk;
					ref_hash_init(&exp[j], A->ref);
					for (unsigned w = 0; w < A->dwords; w++) { uint64_t cv = vk_mix(j * 31 + w + round) & (A->wsize == 8 ? ~0ull : 0xffffffffull); exp[j].h[w] = cv; if (A->wsize == 8) FIELD(job, A->o_digest + 8 * w, uint64_t) = cv; else FIELD(job, A->o_digest + 4 * w, uint32_t) = (uint32_t)cv; }
					FIELD(job, A->o_job_user, void *) = (void *)(uintptr_t)(0xbeef00 + j);
					ref_hash_update(&exp[j], buf, (size_t)nblk * B);
					pending[j] = 1; live++;
					if (VK_TRY()) { r = (void *)VCALLN(js, ns, AP(mgr), AP(job)); VK_END_TRY(); } else { faulted = 1; fault_report(ns); }
				} else {
					if (VK_TRY()) { r = (void *)VCALLN(jf, nf, AP(mgr)); VK_END_TRY(); } else { faulted = 1; fault_report(nf); }
				}
				vk_stat("transitions", 1);
				if (faulted) { bad = 1; break; }
				if (r) {
					int ri = ctx_index(r);
					if (ri < 0 || !pending[ri]) { viol("C06", "job_level_unknown_return", "%s returned %p: not a job this manager holds", fl ? nf : ns, r); bad = 1; break; }
					pending[ri] = 0; live--;
					uint8_t *job = CTX(ri);
					int okd = 1;
					for (unsigned w = 0; w < A->dwords; w++) { uint64_t got = A->wsize == 8 ? FIELD(job, A->o_digest + 8 * w, uint64_t) : FIELD(job, A->o_digest + 4 * w, uint32_t); if (got != exp[ri].h[w]) okd = 0; }
					vk_stat("digests_checked", 1);
					if (!okd) { viol("C01", "job_level_digest", "job %d returned by %s has a chaining value different from the reference compression of its blocks", ri, fl ? nf : ns); bad = 1; break; }
					if (FIELD(job, A->o_job_user, void *) != (void *)(uintptr_t)(0xbeef00 + ri)) { viol("C06", "job_user_data_modified", "job %d user_data changed", ri); bad = 1; break; }
				} else if (fl) {
					if (live != 0) { viol("C06", "job_level_flush_null_with_jobs", "%s returned NULL with %d jobs in the manager", nf, live); bad = 1; }
					break;
				}
			}
			{ long cb = vk_canary_check(&s_arena, arena_off, arena_size); if (cb >= 0) viol("C08", "canary:arena", "job-level call wrote outside manager/job objects"); }
			vk_stat("job_rounds", 1);
		}
	}
}

/* ================= mode=len : length accounting across 2^29 and 2^32 (C15) ================= */
static void run_len(void)
{
	static const uint64_t T[3] = { 1ull << 29, 1ull << 32, (1ull << 32) + (1ull << 29) };
	long item = 0;
	for (unsigned fi = 0; fi < NFAM; fi++) for (int ti = 0; ti < 3; ti++) {
		char nm[64]; snprintf(nm, sizeof nm, "%s_%s", algs[fams[fi].alg].name, fams[fi].name);
		if (vk_only && strcmp(vk_only, nm) && strcmp(vk_only, algs[fams[fi].alg].name)) continue;
		if (item++ % vk_nshards != vk_shard) continue;
		if (!setup_instance(&fams[fi])) continue;
		free(pre_img); pre_img = malloc(arena_size);
		unsigned B = A->block, maxl = 2 * B + 1;
		unsigned stepl = vk_thorough ? 1 : 3;
		for (unsigned m0 = 0; m0 < B; m0++) {       /* every residue of the first piece */
			for (unsigned delta = 1; delta <= 2 * B; delta += (vk_thorough ? 1 : (B / 4 + 1))) {
				if (vk_deadline_hit()) { vk_stat("deadline_skipped", 1); goto next; }
				/* l1: around the crossing point (delta) and one block later; l2: block-boundary classes */
				unsigned l1s[40], nl1 = 0, l2s[24], nl2 = 0;
				if (vk_thorough) {
					for (int d = -2; d <= 2; d++) if ((int)delta + d >= 0) l1s[nl1++] = delta + d;
					l1s[nl1++] = delta + B - 1; l1s[nl1++] = delta + B; l1s[nl1++] = delta + B + 1; l1s[nl1++] = 0; l1s[nl1++] = 1; l1s[nl1++] = B; l1s[nl1++] = maxl;
				} else for (unsigned l1 = (delta > 2 ? delta - 2 : 0); l1 <= maxl && l1 <= delta + B + 1; l1 += stepl) l1s[nl1++] = l1;
				if (vk_thorough) { unsigned c[] = { 0, 1, B - 1, B, B + 1, maxl }; for (unsigned i = 0; i < 6; i++) l2s[nl2++] = c[i]; }
				else for (unsigned l2 = 0; l2 <= B + 1; l2 += 5) l2s[nl2++] = l2;
				for (unsigned i1 = 0; i1 < nl1; i1++) for (unsigned i2 = 0; i2 < nl2 + (vk_thorough ? 3 : 0); i2++) {
					unsigned l1 = l1s[i1], l2;
					if (l1 > maxl) continue;
					if (i2 < nl2) l2 = l2s[i2]; else { int r = (int)(B - ((m0 + l1) % B)) + (int)(i2 - nl2) - 1; if (r < 0) continue; l2 = (unsigned)r; }   /* completes the block exactly, +-1 */
					if (vk_deadline_hit()) { vk_stat("deadline_skipped", 1); goto next; }
					fresh_system();
					if (faulted) goto next;
					sym s0 = { 1, 0, ISAL_HASH_FIRST, m0, 0 };
					if (apply(&s0)) goto nextcase;
					{ int g = 0; while (M.c[0].st == M_INFLIGHT && g++ < 8) { sym fl = { 0 }; if (apply(&fl)) goto nextcase; } }
					/* teleport: D is a multiple of the block size that puts the running total delta bytes below T */
					uint64_t target = T[ti] - delta;
					if (target < m0) continue;
					uint64_t D = (target - m0) / B * B;
					FIELD(CTX(0), A->o_total, uint64_t) += D;
					M.c[0].bytes += D; M.c[0].skipped += D;   /* the reference gets the skipped bytes as a length offset */
					sym s1 = { 1, 0, ISAL_HASH_UPDATE, l1, 0 }, s2 = { 1, 0, ISAL_HASH_LAST, l2, 0 };
					if (apply(&s1)) goto nextcase;
					{ int g = 0; while (M.c[0].st == M_INFLIGHT && g++ < 8) { sym fl = { 0 }; if (apply(&fl)) goto nextcase; } }
					if (apply(&s2)) goto nextcase;
					{ int g = 0; while (M.ninflight > 0 && g++ < 8) { sym fl = { 0 }; if (apply(&fl)) goto nextcase; } }
					if (M.c[0].st != M_COMPLETE) viol("C06", "stream_not_completed", "message context did not complete after draining");
					vk_stat("streams", 1);
					{ uint32_t k[5] = { m0, delta, l1, l2, (uint32_t)ti }; vk_distinct("len_shape", vk_hash(k, sizeof k, vk_hash(inst, strlen(inst), 4))); }
nextcase:;
				}
			}
		}
next:;
	}
}


/* ================= mode=big : genuine > 4 GiB streams (C15, thorough) ================= */
/* Periodic data through aliased mappings of one 1 MiB memfd, so that a 4 GiB + 1 MiB virtual buffer costs 1 MiB of
 * memory. Stream: FIRST(2^32-1) crosses 2^29; UPDATE(2^29+3) crosses 2^32 and 2^32+2^29; LAST(77). The digest must
 * equal the reference hash of the whole stream and total_length the sum; this also validates the teleport of mode=len
 * (state reached from the initial state vs state reached by adding to total_length). */
static void run_big(void)
{
	call_alarm_ms = 900000;      /* a single call hashes up to 4 GiB here */
	const size_t MB = 1 << 20; const uint64_t P1 = (1ull << 32) - 1, P2 = (1ull << 29) + 3, P3 = 77;
	int fd = memfd_create("periodic", 0);
	if (fd < 0 || ftruncate(fd, MB)) { vk_note("memfd unavailable: genuine long streams skipped"); return; }
	uint8_t *pat = mmap(NULL, MB, PROT_READ | PROT_WRITE, MAP_SHARED, fd, 0);
	vk_fill(pat, MB, 0xb16b16);
	size_t total_map = ((size_t)1 << 32) + 2 * MB;
	uint8_t *R = mmap((void *)0x500000000000ULL, total_map, PROT_NONE, MAP_PRIVATE | MAP_ANONYMOUS | MAP_NORESERVE | MAP_FIXED_NOREPLACE, -1, 0);
	if (R == MAP_FAILED) { vk_note("cannot reserve 4 GiB of address space: genuine long streams skipped"); return; }
	for (size_t o = 0; o < total_map; o += MB) if (mmap(R + o, MB, PROT_READ, MAP_SHARED | MAP_FIXED, fd, 0) == MAP_FAILED) { vk_note("aliased mapping failed at %zu MiB: genuine long streams skipped", o >> 20); return; }
	for (int a = 0; a < 5; a++) {
		if (a % vk_nshards != vk_shard) continue;
		if (vk_only && strcmp(vk_only, algs[a].name)) continue;
		/* reference over the periodic stream */
		ref_hash rh; uint8_t dig[64]; uint64_t tot = P1 + P2 + P3;
		ref_hash_init(&rh, algs[a].ref);
		{ uint64_t left = tot; size_t ph = 0; while (left) { size_t n = MB - ph; if (n > left) n = left; ref_hash_update(&rh, pat + ph, n); left -= n; ph = (ph + n) % MB; } }
		ref_hash_final(&rh, 0, dig);
		vk_stat("reference_bytes_hashed", tot);
		for (unsigned fi = 0; fi < NFAM; fi++) {
			if (fams[fi].alg != a) continue;
			if (!setup_instance(&fams[fi])) continue;
			if (vk_deadline_hit()) { vk_stat("deadline_skipped", 1); continue; }
			fresh_system(); if (faulted) continue;
			uint8_t *c = CTX(0);
			uint64_t pos = 0; const uint64_t pl[3] = { P1, P2, P3 }; const int fl[3] = { ISAL_HASH_FIRST, ISAL_HASH_UPDATE, ISAL_HASH_LAST };
			int ok = 1;
			for (int k = 0; k < 3 && ok; k++) {
				void *r = do_submit(c, R + (pos % MB), (uint32_t)pl[k], fl[k]);
				vk_stat("transitions", 1);
				if (faulted) { ok = 0; break; }
				for (int g = 0; !r && g < 8; g++) { r = do_flush(); if (faulted) { ok = 0; break; } }
				if (r != c) { viol("C06", "long_stream_not_returned", "context not handed back after segment %d of the > 4 GiB stream", k); ok = 0; break; }
				pos += pl[k];
				if (FIELD(c, A->o_total, uint64_t) != pos) { viol("C15", "total_length", "after %llu bytes the context reports total_length %llu", (unsigned long long)pos, (unsigned long long)FIELD(c, A->o_total, uint64_t)); ok = 0; }
			}
			if (ok) {
				vk_stat("streams", 1); vk_stat("long_stream_bytes", tot);
				if (!digest_matches(c, dig)) viol("C15", "digest_long_stream", "digest of the genuine %llu-byte stream (FIRST 2^32-1, UPDATE 2^29+3, LAST 77) differs from the reference hash", (unsigned long long)tot);
				{ uint32_t k[2] = { (uint32_t)fi, 99 }; vk_distinct("len_shape", vk_hash(k, sizeof k, 4)); }
			}
		}
	}
}

int main(int argc, char **argv)
{
	const char *v;
	vk_init(argc, argv);
	if (vk_opt("prop", &v)) prop = v;
	if (vk_opt("mode", &v)) mode = v;
	if (vk_opt("entry", &v)) public_entry = !strcmp(v, "public");
	if (vk_opt("validonly", &v)) only_valid_deviations = 1;
	pair_mode = !strcmp(prop, "C20"); guard_mode = !strcmp(prop, "C08");
	if (vk_want_trace) vk_trace_enable();
	if (!strcmp(prop, "C19")) vk_call_mode = VC_POISON_REGS;
	if (pair_mode) vk_call_mode = VC_POISON_REGS | VC_STACK;
	if (ref_run_kats(0)) { fprintf(stderr, "reference KATs failed\n"); return 2; }
	if (vk_want_wtrap) vk_wtrap_enable();
	vk_slot_init(&s_arena, "arena", 1 << 16, 0);
	vk_slot_init(&s_pool, "pool", POOLSZ, 1);
	vk_slot_init(&s_outp, "ctx_out", 4096, 0);
	vk_fill(s_pool.rw, s_pool.size, 0xb00c);
	if (guard_mode) for (int i = 0; i < MAXK; i++) { static char nm[MAXK][12]; snprintf(nm[i], sizeof nm[i], "data_c%d", i); vk_slot_init(&s_cbuf[i], nm[i], 1 << 16, 1); }
	if (!strcmp(mode, "explore")) run_explore();
	else if (!strcmp(mode, "seg")) run_seg();
	else if (!strcmp(mode, "len")) run_len();
	else if (!strcmp(mode, "jobs")) run_jobs();
	else if (!strcmp(mode, "big")) run_big();
	vk_sample("explore: sha256_avx2 policy entire-fill, deviation after 9 submits: REJ(c3,0x4,64) then SUBMIT(c9,LAST,65) ... FLUSH x8; seg: sha1_sse_ni FIRST(63)/UPDATE(66)/LAST(0) with 1 background job");
	vk_finish();
	return 0;
}
