/* E2 - segmentation enumerator (DESIGN.md section 4, E2): for stream objects (mh_sha1, mh_sha256,
 * stitched mh_sha1+murmur3, rolling hash, GCM streaming) enumerate all ways of cutting a stream
 * into a bounded number of calls, run them on the real object of every family, and compare with
 * the reference on the concatenation. Rolling hash: explicit-state search over (position, max_len)
 * with a canonical-state check after every transition. */
#define _GNU_SOURCE
#include "vkit.h"
#include "ref.h"
#include <stdlib.h>
#include <mh_sha1.h>
#include <mh_sha256.h>
#include <mh_sha1_murmur3_x64_128.h>
#include <rolling_hashx.h>
#include <aes_gcm.h>
#include <stddef.h>
#include <sys/mman.h>
#include <unistd.h>

static const char *prop = "C05";
static const char *what = "all";
static int guard_mode, pair_mode, secrets_mode;
static int want(const char *w) { return !strcmp(what, "all") || !strcmp(what, w); }

#define POOL (1 << 16)
static uint8_t *pool;
static vk_slot s_in, s_in2, s_out, s_ctx, s_dig, s_dig2, s_key, s_iv, s_aad, s_tag, s_misc;

static void fault_report(const char *fn, const char *shape)
{
	char a[160], r[160], key[400], obj[64];
	vk_describe_addr(vk_last_fault.addr, a, sizeof a);
	vk_describe_rip(vk_last_fault.rip, r, sizeof r);
	snprintf(obj, sizeof obj, "%.60s", a);
	for (char *c = obj; *c; c++) if (*c == '+' || *c == '-' || *c == '(') { *c = 0; break; }
	snprintf(key, sizeof key, "%s:fault:%s:%s", fn, obj, vk_last_fault.sig == 14 ? "hang" : vk_last_fault.is_write ? "write" : "read");
	vk_violation("C08", key, NULL, "%s: signal %d at %s accessing %s (%s) shape %s", fn, vk_last_fault.sig, r, a, vk_last_fault.is_write ? "write" : "read", shape);
	/* a call that dies produced no result: with valid arguments that is also a violation of the functional property the
	 * sweep decides (e.g. an aligned-load instruction on a caller buffer of arbitrary alignment is not an out-of-range access) */
	if (!strcmp(prop, "C02") || !strcmp(prop, "C03") || !strcmp(prop, "C04") || !strcmp(prop, "C05") || !strcmp(prop, "C07") || !strcmp(prop, "C09") || !strcmp(prop, "C10")) {
		snprintf(key, sizeof key, "%s:no_result:%s", fn, vk_last_fault.sig == 14 ? "hang" : "fault");
		vk_violation(prop, key, NULL, "%s did not return (signal %d at %s) for valid arguments: no result produced; shape %s", fn, vk_last_fault.sig, r, shape);
	}
}
static void canary_report(const char *fn, const char *obj, const vk_slot *s, size_t off, size_t n, const char *shape)
{
	long bad = vk_canary_check(s, off, n);
	if (bad < 0) return;
	char key[300];
	snprintf(key, sizeof key, "%s:canary:%s", fn, obj);
	vk_violation("C08", key, NULL, "%s wrote outside %s: byte at offset %ld relative to the %zu-byte object, shape %s", fn, obj, bad - (long)off, n, shape);
}
/* copy an input piece to a guarded position; returns library-view pointer */
static const uint8_t *piece(vk_slot *s, const uint8_t *src, size_t n, int place, size_t midoff)
{
	size_t off = vk_place(s, n, place, 1, midoff);
	if (n) memcpy(s->rw + off, src, n);
	return s->ro + off;
}

/* ================= multi-hash (C05) and stitched murmur (C10) ================= */
static const char *mh_fams[5] = { "base", "sse", "avx", "avx2", "avx512" };
static const int mh_need[5] = { VK_F_BASE, VK_F_SSE, VK_F_AVX, VK_F_AVX2, VK_F_AVX512 };
#define MAXTOT 6200
static uint32_t mh_ref[2][MAXTOT][8];
static uint8_t mh_ref_ok[2][MAXTOT];
static uint8_t mur_ref[5][MAXTOT][16];
static uint8_t mur_ref_ok[5][MAXTOT];
static const uint64_t mur_seeds[5] = { 0, 1, 0xffffffffULL, 0x8000000000000000ULL, 0x0123456789abcdefULL };

static const uint32_t *mh_ref_get(int is256, size_t tot)
{
	if (!mh_ref_ok[is256][tot]) {
		if (is256) ref_mh_sha256(pool, tot, mh_ref[1][tot]); else ref_mh_sha1(pool, tot, mh_ref[0][tot]);
		mh_ref_ok[is256][tot] = 1;
		vk_stat("reference_computations", 1);
	}
	return mh_ref[is256][tot];
}
static const uint8_t *mur_ref_get(int si, size_t tot)
{
	if (!mur_ref_ok[si][tot]) { ref_murmur3_x64_128(pool, tot, mur_seeds[si], mur_ref[si][tot]); mur_ref_ok[si][tot] = 1; }
	return mur_ref[si][tot];
}

/* length teleport (as C15 for the managers): after update number tele_at the context's running total is advanced by tele_T
 * (a multiple of the 1024-byte block), which is the state after tele_T more bytes as far as the length accounting goes - the
 * library uses total_length only modulo the block size and in the final length / murmur length fields.  tele_T == 0: off. */
static uint64_t tele_T; static int tele_at;
/* kind: 0 mh_sha1, 1 mh_sha256, 2 mh_sha1_murmur3 ; entry 0 family symbols, 1 public isal_ */
static int mh_stream(int kind, int f, int seed_i, const size_t *pl, int np, int place, uint8_t prefill, uint64_t poison, uint8_t *digcopy, int entry)
{
	static const char *kn[3] = { "mh_sha1", "mh_sha256", "mh_sha1_murmur3_x64_128" };
	static const size_t csz[3] = { sizeof(struct isal_mh_sha1_ctx), sizeof(struct isal_mh_sha256_ctx), sizeof(struct isal_mh_sha1_murmur3_x64_128_ctx) };
	char n_init[80], n_upd[80], n_fin[80], shape[200];
	if (entry) { snprintf(n_init, 80, "isal_%s_init", kn[kind]); snprintf(n_upd, 80, "isal_%s_update", kn[kind]); snprintf(n_fin, 80, "isal_%s_finalize", kn[kind]); }
	else { snprintf(n_init, 80, "_%s_init", kn[kind]); snprintf(n_upd, 80, "_%s_update_%s", kn[kind], mh_fams[f]); snprintf(n_fin, 80, "_%s_finalize_%s", kn[kind], mh_fams[f]); }
	void *f_init = vk_sym(n_init), *f_upd = vk_sym(n_upd), *f_fin = vk_sym(n_fin);
	if (!f_init || !f_upd || !f_fin) { vk_stat("missing_symbol", 1); return 2; }
	size_t tot = 0; int o = 0;
	o += snprintf(shape + o, sizeof shape - o, "pieces=");
	for (int i = 0; i < np; i++) { o += snprintf(shape + o, sizeof shape - o, "%s%zu", i ? "," : "", pl[i]); tot += pl[i]; }
	o += snprintf(shape + o, sizeof shape - o, " place=%d seed#%d", place, seed_i);
	if (tele_T) snprintf(shape + o, sizeof shape - o, " total+=0x%llx after piece %d", (unsigned long long)tele_T, tele_at);
	size_t o_ctx = vk_place(&s_ctx, csz[kind], VK_END, 16, 0), o_d1, o_d2 = 0;
	int dwords = kind == 1 ? 8 : 5;
	vk_canary_fill(&s_ctx); memset(s_ctx.rw + o_ctx, prefill, csz[kind]);
	uint8_t *ctx = s_ctx.rw + o_ctx;
	o_d1 = vk_place(&s_dig, 4 * dwords, place == VK_START ? VK_START : VK_END, 1, 0); vk_canary_fill(&s_dig); memset(s_dig.rw + o_d1, prefill, 4 * dwords);
	if (kind == 2) { o_d2 = vk_place(&s_dig2, 16, place == VK_START ? VK_START : VK_END, 1, 0); vk_canary_fill(&s_dig2); memset(s_dig2.rw + o_d2, prefill, 16); }
	vk_call_poison = poison;
	int faulted = 0; const char *volatile cur = n_init;
	if (place == VK_MID) memcpy(s_in.rw + s_in.size - tot, pool, tot);
	vk_alarm(5000);
	if (VK_TRY()) {
		if (kind == 2) VCALLN(f_init, n_init, AP(ctx), A64(mur_seeds[seed_i])); else VCALLN(f_init, n_init, AP(ctx));
		size_t pos = 0;
		cur = n_upd;
		for (int i = 0; i < np; i++) {
			const uint8_t *p;
			if (place == VK_MID) p = s_in.ro + (s_in.size - tot) + pos;   /* whole stream end-flush; pieces at natural offsets */
			else p = piece(i & 1 ? &s_in2 : &s_in, pool + pos, pl[i], place, 0);
			uint64_t r = VCALLN(f_upd, n_upd, AP(ctx), AP(p), A32(pl[i]));
			if ((int)r != 0) { char key[128]; snprintf(key, sizeof key, "%s:ret", n_upd); vk_violation(entry ? "C16" : prop, key, NULL, "%s returned %d for valid arguments %s", n_upd, (int)r, shape); }
			pos += pl[i];
			vk_stat("calls_update", 1);
			if (tele_T && i == tele_at) {
				uint64_t *tl = kind == 0 ? &((struct isal_mh_sha1_ctx *)ctx)->total_length : kind == 1 ? &((struct isal_mh_sha256_ctx *)ctx)->total_length : &((struct isal_mh_sha1_murmur3_x64_128_ctx *)ctx)->total_length;
				if (*tl != pos) { char key[128]; snprintf(key, sizeof key, "%s:total_length", n_upd); vk_violation(prop, key, NULL, "%s: running total %llu after %zu bytes %s", n_upd, (unsigned long long)*tl, pos, shape); }
				*tl += tele_T;
			}
		}
		cur = n_fin;
		uint64_t r;
		if (kind == 2) r = VCALLN(f_fin, n_fin, AP(ctx), AP(s_dig.rw + o_d1), AP(s_dig2.rw + o_d2)); else r = VCALLN(f_fin, n_fin, AP(ctx), AP(s_dig.rw + o_d1));
		if ((int)r != 0) { char key[128]; snprintf(key, sizeof key, "%s:ret", n_fin); vk_violation(entry ? "C16" : prop, key, NULL, "%s returned %d for valid arguments %s", n_fin, (int)r, shape); }
		VK_END_TRY();
	} else faulted = 1;
	vk_alarm(0);
	vk_stat("streams", 1);
	if (faulted) { fault_report(cur, shape); return 1; }
	canary_report(n_fin, "ctx", &s_ctx, o_ctx, csz[kind], shape);
	canary_report(n_fin, "digest", &s_dig, o_d1, 4 * dwords, shape);
	if (kind == 2) canary_report(n_fin, "murmur_digest", &s_dig2, o_d2, 16, shape);
	uint32_t tref[8]; uint8_t tmur[16];
	const uint32_t *ref = tref; const uint8_t *mref = tmur;
	if (tele_T) {
		/* direct-mapped cache of teleported references: key (algorithm, offset, total) */
		static struct { uint64_t T; uint32_t tot; uint8_t is256, ok; uint32_t d[8]; } *tc; enum { TCN = 1 << 18 };
		if (!tc) tc = calloc(TCN, sizeof *tc);
		uint64_t kk[3] = { tele_T, tot, kind == 1 }; size_t ci = vk_hash(kk, sizeof kk, 3) & (TCN - 1);
		if (!(tc[ci].ok && tc[ci].T == tele_T && tc[ci].tot == tot && tc[ci].is256 == (kind == 1))) { ref_mh_ext(kind == 1, pool, tot, tele_T, tc[ci].d); tc[ci].T = tele_T; tc[ci].tot = (uint32_t)tot; tc[ci].is256 = kind == 1; tc[ci].ok = 1; vk_stat("reference_computations", 1); }
		memcpy(tref, tc[ci].d, sizeof tref); if (kind == 2) ref_murmur3_x64_128_ext(pool, tot, mur_seeds[seed_i], tele_T, tmur); vk_stat("teleported_streams", 1); }
	else { ref = mh_ref_get(kind == 1, tot); if (kind == 2) mref = mur_ref_get(seed_i, tot); }
	if (memcmp(s_dig.rw + o_d1, ref, 4 * dwords)) {
		char key[160]; snprintf(key, sizeof key, "%s:mh_digest", n_upd);
		vk_violation(kind == 2 ? "C10" : "C05", key, NULL, "%s/%s multi-hash digest differs from the definition (total %zu) %s", n_upd, n_fin, tot, shape);
	}
	if (kind == 2 && memcmp(s_dig2.rw + o_d2, mref, 16)) {
		char key[160]; snprintf(key, sizeof key, "%s:murmur", n_upd);
		vk_violation("C10", key, NULL, "%s/%s murmur3_x64_128 differs from MurmurHash3 reference (total %zu, seed %llx) %s", n_upd, n_fin, tot, (unsigned long long)mur_seeds[seed_i], shape);
	}
	if (digcopy) { memcpy(digcopy, s_dig.rw + o_d1, 4 * dwords); if (kind == 2) memcpy(digcopy + 32, s_dig2.rw + o_d2, 16); }
	vk_distinct("shape", vk_hash(shape, strlen(shape), vk_hash(n_upd, strlen(n_upd), 5)));
	return 0;
}

static void mh_sweep(int kind)
{
	/* structured second-piece set */
	static size_t S[64]; int ns = 0;
	size_t base[] = { 0, 1, 2, 15, 16, 17, 63, 64, 65, 127, 128, 511, 512, 1007, 1008, 1009, 1015, 1016, 1017, 1023, 1024, 1025, 1087, 1088, 2047, 2048, 2049, 3071, 3072, 3073 };
	for (unsigned i = 0; i < sizeof base / sizeof *base; i++) S[ns++] = base[i];
	uint8_t d1[64], d2[64];
	long item = 0;
	int nseeds = kind == 2 ? 5 : 1;
	size_t l1max = (guard_mode || pair_mode) && !vk_thorough ? 1040 : (vk_thorough ? 2049 : 1040);
	for (size_t l1 = 0; l1 <= l1max; l1++) {
		if (vk_want_trace && !(l1 == 0 || l1 == 1025)) continue;
		if (item++ % vk_nshards != vk_shard) continue;
		if (vk_deadline_hit()) { vk_stat("deadline_skipped", 1); continue; }
		for (int f = 0; f < 5; f++) {
			if (!vk_host_can(mh_need[f])) { vk_stat("skipped_family_not_executable_on_host", 1); continue; }
			if (vk_only && strcmp(mh_fams[f], vk_only)) continue;
			/* second piece: thorough = every l2 in [0,2049]; quick = structured set + complements to block boundaries */
			size_t l2list[2200]; int n2 = 0;
			if (vk_thorough && !guard_mode && !pair_mode) for (size_t l2 = 0; l2 <= 2049; l2++) l2list[n2++] = l2;
			else {
				for (int i = 0; i < ns; i++) l2list[n2++] = S[i];
				size_t r = l1 % 1024;
				for (int d = -1; d <= 1; d++) { l2list[n2++] = (2048 - r + d) % 2048; l2list[n2++] = (1024 - r + 1024 + d) % 1024 + 1024; }
				if (kind == 2) for (size_t t = 0; t <= 40; t++) l2list[n2++] = t;
			}
			for (int i2 = 0; i2 < n2; i2++) {
				if (vk_want_trace && !(l2list[i2] == 0 || l2list[i2] == 1023)) continue;
				size_t pl[3] = { l1, l2list[i2], 0 };
				int si = (int)((l1 + l2list[i2]) % nseeds);
				if (guard_mode) {
					if (i2 % 4 != (int)(l1 % 4)) continue;
					mh_stream(kind, f, si, pl, 2, VK_END, 0x00, 0x5a5a5a5a5a5a5a5aULL, NULL, 0);
					mh_stream(kind, f, si, pl, 2, VK_START, 0x00, 0x5a5a5a5a5a5a5a5aULL, NULL, 0);
				} else if (pair_mode) {
					if (i2 % 4 != (int)(l1 % 4)) continue;
					int a = mh_stream(kind, f, si, pl, 2, VK_MID, 0x00, 0x1111111111111111ULL, d1, 0);
					int b = mh_stream(kind, f, si, pl, 2, VK_MID, 0xff, 0xfedcba9876543210ULL, d2, 0);
					if (!a && !b && memcmp(d1, d2, kind == 2 ? 48 : 32)) { char key[128]; snprintf(key, sizeof key, "mh%d_%s:pair", kind, mh_fams[f]); vk_violation("C20", key, NULL, "digest depends on hidden inputs: pieces %zu,%zu", pl[0], pl[1]); }
					vk_stat("pairs", 1);
				} else {
					mh_stream(kind, f, si, pl, 2, VK_MID, 0xa5, 0x5a5a5a5a5a5a5a5aULL, NULL, 0);
					/* three pieces: third from a small structured set (start-from-non-initial-state) */
					if (i2 % 3 == 0 || vk_thorough) {
						static const size_t T[] = { 0, 1, 17, 1023, 1024, 1025 };
						int nt = vk_thorough ? 6 : 3;
						if (vk_thorough && i2 % 8 != (int)(l1 % 8)) nt = 0;
						for (int k = 0; k < nt; k++) { pl[2] = T[(k + l1) % 6]; mh_stream(kind, f, si, pl, 3, VK_MID, 0xa5, 0x5a5a5a5a5a5a5a5aULL, NULL, 0); }
					}
				}
			}
		}
	}
	/* public dispatched entry points once per total length class (legacy twins are checked in E4) */
	if (vk_shard == 0 && !guard_mode && !pair_mode && !vk_want_trace) for (size_t l1 = 0; l1 <= 1100; l1 += 7) { size_t pl[2] = { l1, 1100 - l1 }; mh_stream(kind, 0, 0, pl, 2, VK_MID, 0, 0x5a5a5a5a5a5a5a5aULL, NULL, 1); }
}

/* totals crossing 2^29 (bit length needs more than 32 bits), 2^31 and ending just below 2^32 (the property's limit), at every
 * interesting residue of the 1024-byte block, with the crossing inside the second piece or inside finalize */
static void mh_tele_sweep(int kind)
{
	static const uint64_t X[] = { 1ULL << 29, 1ULL << 31, (1ULL << 32) - 4096, 1ULL << 24, 1ULL << 16 };
	long item = 0; int nseeds = kind == 2 ? 5 : 1;
	for (unsigned xi = 0; xi < (vk_thorough ? 5 : 3); xi++) for (int j = 0; j <= (vk_thorough ? 2 : 1); j++) {
		uint64_t T = X[xi] - 1024ULL * j;
		size_t step = vk_thorough ? 1 : 7;
		for (size_t l1 = 0; l1 <= 1040; l1 += (l1 < 70 || (l1 > 950 && l1 < 1040) ? 1 : step)) {
			if (item++ % vk_nshards != vk_shard) continue;
			if (vk_deadline_hit()) { vk_stat("deadline_skipped", 1); continue; }
			for (int f = 0; f < 5; f++) {
				if (!vk_host_can(mh_need[f])) continue;
				if (vk_only && strcmp(mh_fams[f], vk_only)) continue;
				static const size_t L2[] = { 0, 1, 15, 16, 17, 63, 64, 65, 959, 960, 1007, 1008, 1015, 1016, 1017, 1023, 1024, 1025, 2047, 2048, 2049, 3000 };
				for (unsigned i2 = 0; i2 < sizeof L2 / sizeof *L2; i2++) {
					size_t pl[2] = { l1, L2[i2] };
					if (T + l1 + L2[i2] > 0xffffffffULL) continue;
					size_t r = 1024 - l1 % 1024;
					for (int at = 0; at <= 1; at++) {
						tele_T = T; tele_at = at;
						mh_stream(kind, f, (int)((l1 + i2) % nseeds), pl, 2, VK_MID, 0xa5, 0x5a5a5a5a5a5a5a5aULL, NULL, 0);
						if (i2 == 0) { size_t p3[2] = { l1, r }; mh_stream(kind, f, 0, p3, 2, VK_MID, 0xa5, 0x5a5a5a5a5a5a5a5aULL, NULL, 0); }
					}
					tele_T = 0;
				}
			}
		}
	}
	tele_T = 0;
}

/* genuine long streams (thorough): validates the teleport argument on the real update path.  A window of address space is
 * aliased 1 MiB-wise onto one small memfd, so the stream costs no memory; the reference reads the same window. */
static void mh_big(int kind)
{
	const size_t MB = 1 << 20; size_t total_map = (1ULL << 29) + 2 * MB;
	int fd = memfd_create("periodic", 0);
	if (fd < 0 || ftruncate(fd, MB)) { vk_note("memfd unavailable: genuine long streams skipped"); return; }
	uint8_t *pat = mmap(NULL, MB, PROT_READ | PROT_WRITE, MAP_SHARED, fd, 0);
	for (size_t i = 0; i < MB; i++) pat[i] = (uint8_t)(vk_hash(&i, sizeof i, 77) >> 11);
	uint8_t *R = mmap(NULL, total_map, PROT_NONE, MAP_PRIVATE | MAP_ANONYMOUS | MAP_NORESERVE, -1, 0);
	if (R == MAP_FAILED) { vk_note("cannot reserve address space: genuine long streams skipped"); return; }
	for (size_t o = 0; o < total_map; o += MB) if (mmap(R + o, MB, PROT_READ, MAP_SHARED | MAP_FIXED, fd, 0) == MAP_FAILED) { vk_note("aliased mapping failed: genuine long streams skipped"); return; }
	static const char *kn[3] = { "mh_sha1", "mh_sha256", "mh_sha1_murmur3_x64_128" };
	static const size_t csz[3] = { sizeof(struct isal_mh_sha1_ctx), sizeof(struct isal_mh_sha256_ctx), sizeof(struct isal_mh_sha1_murmur3_x64_128_ctx) };
	size_t p1 = (1ULL << 29) - 37, p2 = 1061, tot = p1 + p2;    /* crosses 2^29 inside the second update; 1024-residue 0 */
	uint32_t ref[8]; uint8_t mref[16]; int have_ref = 0;
	int dwords = kind == 1 ? 8 : 5;
	for (int f = 0; f < 5; f++) {
		if (f % vk_nshards != vk_shard) continue;
		if (!vk_host_can(mh_need[f])) continue;
		if (vk_only && strcmp(mh_fams[f], vk_only)) continue;
		if (vk_deadline_hit()) { vk_stat("deadline_skipped", 1); continue; }
		if (!have_ref) { ref_mh_ext(kind == 1, R, tot, 0, ref); if (kind == 2) ref_murmur3_x64_128_ext(R, tot, mur_seeds[4], 0, mref); have_ref = 1; }
		char n_init[80], n_upd[80], n_fin[80];
		snprintf(n_init, 80, "_%s_init", kn[kind]); snprintf(n_upd, 80, "_%s_update_%s", kn[kind], mh_fams[f]); snprintf(n_fin, 80, "_%s_finalize_%s", kn[kind], mh_fams[f]);
		void *f_init = vk_sym(n_init), *f_upd = vk_sym(n_upd), *f_fin = vk_sym(n_fin);
		if (!f_init || !f_upd || !f_fin) { vk_stat("missing_symbol", 1); continue; }
		size_t o_ctx = vk_place(&s_ctx, csz[kind], VK_END, 16, 0); uint8_t *ctx = s_ctx.rw + o_ctx; memset(ctx, 0xa5, csz[kind]);
		uint8_t dig[32], mur[16]; const char *volatile cur = n_init;
		vk_alarm(600000);
		if (VK_TRY()) {
			if (kind == 2) VCALLN(f_init, n_init, AP(ctx), A64(mur_seeds[4])); else VCALLN(f_init, n_init, AP(ctx));
			cur = n_upd;
			VCALLN(f_upd, n_upd, AP(ctx), AP(R), A32(p1));
			VCALLN(f_upd, n_upd, AP(ctx), AP(R + p1), A32(p2));
			cur = n_fin;
			if (kind == 2) VCALLN(f_fin, n_fin, AP(ctx), AP(dig), AP(mur)); else VCALLN(f_fin, n_fin, AP(ctx), AP(dig));
			VK_END_TRY();
		} else { vk_alarm(0); fault_report(cur, "genuine stream of 2^29+1024 bytes"); continue; }
		vk_alarm(0);
		vk_stat("genuine_long_streams", 1);
		if (memcmp(dig, ref, 4 * dwords)) { char key[160]; snprintf(key, sizeof key, "%s:mh_digest_long", n_upd); vk_violation(kind == 2 ? "C10" : "C05", key, NULL, "%s: multi-hash digest of a genuine %zu-byte stream (pieces %zu,%zu) differs from the definition", n_upd, tot, p1, p2); }
		if (kind == 2 && memcmp(mur, mref, 16)) { char key[160]; snprintf(key, sizeof key, "%s:murmur_long", n_upd); vk_violation("C10", key, NULL, "%s: murmur3 of a genuine %zu-byte stream differs from the reference", n_upd, tot); }
	}
	munmap(R, total_map); munmap(pat, MB); close(fd);
}

/* ================= rolling hash (C09) ================= */
static const char *roll_impl[3] = { "_rolling_hash2_run_until_base", "_rolling_hash2_run_until_00", "_rolling_hash2_run_until_04" };
static const int roll_need[3] = { VK_F_BASE, VK_F_SSE, VK_F_AVX2 };
static const uint32_t roll_mt[][2] = { { 1, 0 }, { 1, 1 }, { 3, 0 }, { 3, 1 }, { 3, 3 }, { 7, 5 }, { 0x30, 0x10 }, { 0x80000000u, 0x80000000u }, { 0, 0 }, { 0xf, 0 }, { 0x1ff, 0x155 } };
#define NMT (sizeof roll_mt / sizeof *roll_mt)
extern void *_rolling_hash2_run_until_dispatched;

static void roll_sweep(void)
{
	void *f_init = vk_sym("isal_rolling_hash2_init"), *f_reset = vk_sym("isal_rolling_hash2_reset"), *f_run = vk_sym("isal_rolling_hash2_run");
	if (!f_init || !f_reset || !f_run) { vk_stat("missing_symbol", 1); return; }
	int extra = vk_thorough ? ((guard_mode || pair_mode || secrets_mode) ? 150 : 340) : 70;
	long item = 0;
	for (unsigned w = 1; w <= 48; w++) for (int impl = 0; impl < 3; impl++) {
		if (vk_want_trace && !(w == 1 || w == 16 || w == 48)) continue;
		if (item++ % vk_nshards != vk_shard) continue;
		if (!vk_host_can(roll_need[impl])) { vk_stat("skipped_family_not_executable_on_host", 1); continue; }
		void *scan = vk_sym(roll_impl[impl]);
		if (!scan) { vk_stat("missing_symbol", 1); continue; }
		size_t N = w + extra;
		uint8_t stream[48 + 400];       /* init bytes followed by the stream */
		vk_fill(stream, sizeof stream, 0x7011 + w);
		if (w % 5 == 0) memset(stream + 10, 0, 30);  /* low-entropy stretch */
		const uint8_t *S = stream + w;
		/* canonical state at every position p: hash of the last w bytes, those bytes */
		uint64_t canon[600];
		for (size_t p = 0; p <= N; p++) canon[p] = ref_rolling_hash(stream + p, w);
		size_t o_st = vk_place(&s_ctx, sizeof(struct isal_rh_state2), VK_END, 8, 0);
		struct isal_rh_state2 *st = (void *)(s_ctx.rw + o_st);
		struct isal_rh_state2 st0;
		vk_canary_fill(&s_ctx);
		memset(st, guard_mode ? 0 : 0xe7, sizeof *st);
		size_t o_off = vk_place(&s_misc, 4, VK_END, 4, 0), o_m = vk_place(&s_dig, 4, VK_END, 4, 0);
		uint32_t *p_off = (uint32_t *)(s_misc.rw + o_off); int *p_match = (int *)(s_dig.rw + o_m);
		const uint8_t *p_init = piece(&s_in2, stream, w, VK_END, 0);
		int faulted = 0;
		char shape[200] = "init/reset";
		if (VK_TRY()) {
			uint64_t r = VCALLN(f_init, "isal_rolling_hash2_init", AP(st), A32(w));
			if ((int)r) vk_violation("C16", "isal_rolling_hash2_init:ret", NULL, "init(w=%u) returned %d", w, (int)r);
			r = VCALLN(f_reset, "isal_rolling_hash2_reset", AP(st), AP(p_init));
			if ((int)r) vk_violation("C16", "isal_rolling_hash2_reset:ret", NULL, "reset returned %d", (int)r);
			VK_END_TRY();
		} else { fault_report("isal_rolling_hash2_init/reset", shape); continue; }
		if (st->hash != canon[0] || memcmp(st->history, stream, w)) { char key[96]; snprintf(key, sizeof key, "reset:state:w%u", w); vk_violation("C09", "isal_rolling_hash2_reset:state", NULL, "state after reset differs from definition (w=%u)", w); }
		for (int i = 0; i < 256; i++) if (st->table1[i] != ref_rolling_table1[i]) { vk_violation("C09", "isal_rolling_hash2_init:table", NULL, "table1[%d] differs from the pinned constant", i); break; }
		st0 = *st;
		_rolling_hash2_run_until_dispatched = scan;
		for (unsigned mi = 0; mi < NMT; mi++) {
			uint32_t mask = roll_mt[mi][0], trig = roll_mt[mi][1];
			if (vk_want_trace) {
				/* direct call of the scan routine so that the measurement is attributed to the dispatch candidate itself */
				uint32_t idx = 0; *st = st0;
				VCALLN(scan, roll_impl[impl], AP(&idx), A64(N), AP(st->table1), AP(st->table2), AP(s_in.ro + 256 + w), AP(s_in.ro + 256), A64(st->hash), A64(mask), A64(trig));
				if (mi > 2) continue;
			}
			/* explicit-state search: state = position p (canonical state restored), transition = run(max_len m) */
			for (size_t p = 0; p <= N; p++) for (size_t m = 0; m <= N - p; m++) {
				if (vk_want_trace && (p % 37 || m % 13)) continue;
				if (vk_deadline_hit()) { vk_stat("deadline_skipped", 1); goto next_impl; }
				/* restore canonical state at p */
				*st = st0; st->hash = canon[p]; memcpy(st->history, stream + p, w);
				/* expected */
				uint32_t eoff = (uint32_t)m; int ematch = ISAL_FINGERPRINT_RET_MAX;
				for (size_t j = 1; j <= m; j++) if ((canon[p + j] & mask) == trig) { eoff = (uint32_t)j; ematch = ISAL_FINGERPRINT_RET_HIT; break; }
				int places = guard_mode ? 2 : 1;
				for (int pi = 0; pi < places; pi++) {
					int place = guard_mode ? pi : VK_MID;
					if (pi) { *st = st0; st->hash = canon[p]; memcpy(st->history, stream + p, w); }
					/* functional mode: the run buffer lies inside a mapped copy of the whole stream, so an
					 * over-long scan shows up as a wrong offset (C09) rather than as a fault (C08's business) */
					const uint8_t *buf = guard_mode ? piece(&s_in, S + p, m, place, 0) : piece(&s_in, S + p, N - p, VK_MID, 256);
					*p_off = 0xdeadbeef; *p_match = -77;
					snprintf(shape, sizeof shape, "w=%u impl=%s mask=%x trigger=%x pos=%zu max_len=%zu place=%d", w, roll_impl[impl] + 24, mask, trig, p, m, place);
					faulted = 0;
					uint64_t r = 0;
					if (VK_TRY()) { r = VCALLN(f_run, "isal_rolling_hash2_run", AP(st), AP(buf), A32(m), A32(mask), A32(trig), AP(p_off), AP(p_match)); VK_END_TRY(); }
					else faulted = 1;
					vk_stat("transitions", 1);
					char fnm[96]; snprintf(fnm, sizeof fnm, "isal_rolling_hash2_run[%s]", roll_impl[impl] + 1);
					if (faulted) { fault_report(fnm, shape); vk_canary_fill(&s_ctx); *st = st0; continue; }
					canary_report(fnm, "state", &s_ctx, o_st, sizeof *st, shape);
					if ((int)r) { vk_violation("C16", "isal_rolling_hash2_run:ret", NULL, "run returned %d for valid arguments %s", (int)r, shape); continue; }
					if (*p_off != eoff || *p_match != ematch) {
						char key[160]; snprintf(key, sizeof key, "%s:%s", fnm, *p_off > m ? "offset_gt_max_len" : "boundary");
						vk_violation("C09", key, NULL, "%s reported offset=%u match=%d, definition gives offset=%u match=%d (%s)", fnm, *p_off, *p_match, eoff, ematch, shape);
						continue;
					}
					size_t q = p + eoff;
					if (st->hash != canon[q] || memcmp(st->history, stream + q, w)) {
						char key[160]; snprintf(key, sizeof key, "%s:state", fnm);
						vk_violation("C09", key, NULL, "%s left hash/history different from the canonical state of the last w bytes (%s)", fnm, shape);
					}
					vk_distinct("roll_state", vk_hash(&q, sizeof q, vk_hash(&w, 4, mi * 3 + impl)));
					if (pair_mode) {
						/* second execution: undefined tail of history[], output prefill and register/stack poison differ */
						uint32_t o1 = *p_off; int m1 = *p_match; uint64_t h1 = st->hash; uint8_t hist1[48]; memcpy(hist1, st->history, w);
						*st = st0; st->hash = canon[p]; memcpy(st->history, stream + p, w);
						for (unsigned t = w; t < 48; t++) st->history[t] ^= 0xff;
						*p_off = 0x11111111; *p_match = 0x2222;
						vk_call_poison = 0xfedcba9876543210ULL;
						if (VK_TRY()) { VCALLN(f_run, "isal_rolling_hash2_run", AP(st), AP(buf), A32(m), A32(mask), A32(trig), AP(p_off), AP(p_match)); VK_END_TRY(); }
						vk_call_poison = 0x1111111111111111ULL;
						vk_stat("pairs", 1);
						if (*p_off != o1 || *p_match != m1 || st->hash != h1 || memcmp(hist1, st->history, w)) {
							char key[160]; snprintf(key, sizeof key, "%s:pair", fnm);
							vk_violation("C20", key, NULL, "%s result depends on hidden inputs (%s)", fnm, shape);
						}
					}
				}
			}
			/* chained runs without state restore: state reached from the initial state vs canonical */
			for (size_t m1 = 0; m1 <= N; m1 += (vk_thorough ? 1 : 3)) for (size_t m2 = 0; m2 <= N; m2 += (vk_thorough ? 5 : 11)) {
				if (vk_want_trace) break;
				*st = st0;
				size_t pos = 0; size_t ms[3] = { m1, m2, N };
				for (int c = 0; c < 3 && pos < N; c++) {
					size_t m = ms[c] > N - pos ? N - pos : ms[c];
					const uint8_t *buf = piece(&s_in, S + pos, N - pos, VK_MID, 256);
					faulted = 0;
					if (VK_TRY()) { VCALLN(f_run, "isal_rolling_hash2_run", AP(st), AP(buf), A32(m), A32(mask), A32(trig), AP(p_off), AP(p_match)); VK_END_TRY(); } else faulted = 1;
					vk_stat("chain_calls", 1);
					if (faulted || *p_off > m) break;   /* already reported by the state search */
					pos += *p_off;
					if (st->hash != canon[pos] || memcmp(st->history, stream + pos, w)) {
						char fnm[96]; snprintf(fnm, sizeof fnm, "isal_rolling_hash2_run[%s]:chain_state", roll_impl[impl] + 1);
						vk_violation("C09", fnm, NULL, "chained runs (max_len %zu,%zu,...) reached a state different from the canonical one at stream position %zu (w=%u mask=%x)", m1, m2, pos, w, mask);
						break;
					}
					if (*p_match == ISAL_FINGERPRINT_RET_MAX && m == 0 && c == 2) break;
				}
			}
		}
next_impl:;
	}
	_rolling_hash2_run_until_dispatched = vk_sym("_rolling_hash2_run_until_mbinit");
	/* mask generator */
	if (vk_shard == 0 && !vk_want_trace) {
		void *f_mg = vk_sym("isal_rolling_hashx_mask_gen");
		size_t o = vk_place(&s_misc, 4, VK_END, 4, 0); uint32_t *pm = (uint32_t *)(s_misc.rw + o);
		uint32_t means[70000]; int nm = 0;
		for (uint32_t m = 0; m <= 65536; m += (vk_thorough ? 1 : 3)) means[nm++] = m;
		for (int b = 17; b < 32; b++) { means[nm++] = (1u << b) - 1; means[nm++] = 1u << b; means[nm++] = (1u << b) + 1; }
		means[nm++] = 0xffffffffu;
		for (int i = 0; i < nm; i++) for (uint32_t sh = 0; sh < 32; sh++) {
			uint32_t mean = means[i], mm = mean < 2 ? 2 : mean, fp = 1;
			while (fp <= mm / 2) fp <<= 1;
			uint32_t x = fp - 1, exp = sh ? ((x << sh) | (x >> (32 - sh))) : x;
			*pm = 0x12345678;
			uint64_t r = VCALLN(f_mg, "isal_rolling_hashx_mask_gen", A32(mean), A32(sh), AP(pm));
			vk_stat("mask_gen_calls", 1);
			if ((int)r || *pm != exp) { vk_violation("C09", "isal_rolling_hashx_mask_gen:value", NULL, "mask_gen(mean=%u, shift=%u) = %x (ret %d), definition gives %x", mean, sh, *pm, (int)r, exp); }
		}
	}
}


/* ================= block-level assembly entry points called directly (C19 / C08 / C20 coverage) ================= */
/* _mh_*_block_<fam> and _rolling_hash2_run_until_<impl> are reached in normal use only through C code that may
 * save and restore the registers they clobber; they are CPU-specific entry points of their own, so they are also
 * called directly. Oracle: ABI state (trampoline) and agreement with the base family on the same input. */
static void blocks_sweep(void)
{
	static const char *kn[3] = { "mh_sha1", "mh_sha256", "mh_sha1_murmur3_x64_128" };
	static uint32_t dig[5][8][16] __attribute__((aligned(64))); static uint8_t frame[2][2048] __attribute__((aligned(64))); static uint64_t mur[5][2];
	for (int kind = 0; kind < 3; kind++) for (uint32_t nb = 1; nb <= (vk_thorough ? 5u : 3u); nb++)   /* internal contract: callers pass at least one block */ for (size_t off = 0; off < (vk_thorough ? 64u : 16u); off += 5) {
		int nw = kind == 1 ? 8 : 5, have_base = 0;
		for (int f = 0; f < 5; f++) {
			char nm[96]; snprintf(nm, sizeof nm, "_%s_block_%s", kn[kind], mh_fams[f]);
			void *fn = vk_sym(nm);
			if (!fn || !vk_host_can(mh_need[f])) continue;
			for (int w = 0; w < nw; w++) for (int sg = 0; sg < 16; sg++) dig[f][w][sg] = (uint32_t)vk_mix(w * 16 + sg + kind);
			mur[f][0] = 0x1111222233334444ull; mur[f][1] = 0x5555666677778888ull;
			const uint8_t *in = piece(&s_in, pool + off, (size_t)nb * 1024, guard_mode ? VK_END : VK_MID, 64 + off);
			int faulted = 0;
			if (VK_TRY()) {
				if (kind == 2) VCALLN(fn, nm, AP(in), AP(dig[f]), AP(frame[0]), AP(mur[f]), A64(nb)); else VCALLN(fn, nm, AP(in), AP(dig[f]), AP(frame[0]), A64(nb));   /* internal routines: arguments extended as the library's C callers do */
				VK_END_TRY();
			} else faulted = 1;
			vk_stat("block_calls", 1);
			char shape[64]; snprintf(shape, sizeof shape, "blocks=%u off=%zu", nb, off);
			if (faulted) { fault_report(nm, shape); continue; }
			if (f == 0) have_base = 1;
			else if (have_base && (memcmp(dig[f], dig[0], (size_t)nw * 64) || (kind == 2 && memcmp(mur[f], mur[0], 16)))) {
				char key[128]; snprintf(key, sizeof key, "%s:block_mismatch", nm);
				vk_violation(kind == 2 ? "C10" : "C05", key, NULL, "%s and the base block function disagree (%s)", nm, shape);
			}
		}
	}
	/* rolling-hash scan routines */
	{
		struct isal_rh_state2 st; uint8_t buf[400];
		memcpy(buf, pool + 77, sizeof buf);
		void *f_init = vk_sym("_rolling_hash2_init");
		if (f_init) for (unsigned w = 1; w <= 48; w += 7) {
			VCALLN(f_init, "_rolling_hash2_init", AP(&st), A32(w));
			for (uint32_t maxi = w; maxi <= w + 40; maxi++) {
				uint64_t res[3]; uint32_t idxs[3];
				for (int impl = 0; impl < 3; impl++) {
					void *scan = vk_sym(roll_impl[impl]);
					res[impl] = 0; idxs[impl] = 0;
					if (!scan || !vk_host_can(roll_need[impl])) continue;
					uint32_t idx = w;
					const uint8_t *b1 = piece(&s_in, buf, maxi, guard_mode ? VK_END : VK_MID, 128);
					int faulted = 0;
					if (VK_TRY()) { res[impl] = VCALLN(scan, roll_impl[impl], AP(&idx), A64(maxi), AP(st.table1), AP(st.table2), AP(b1), AP(b1 - w), A64(0x1234567), A64(0x7), A64(0x3)); VK_END_TRY(); } else faulted = 1;
					vk_stat("block_calls", 1);
					if (faulted) { char shape[64]; snprintf(shape, sizeof shape, "w=%u max_idx=%u", w, maxi); fault_report(roll_impl[impl], shape); continue; }
					idxs[impl] = idx;
					if (impl && (res[impl] != res[0] || idxs[impl] != idxs[0])) { char key[128]; snprintf(key, sizeof key, "%s:scan_mismatch", roll_impl[impl]); vk_violation("C09", key, NULL, "%s and the base scan disagree (w=%u max_idx=%u: idx %u vs %u)", roll_impl[impl], w, maxi, idxs[impl], idxs[0]); }
				}
			}
		}
	}
}

/* ================= GCM streaming (C07) ================= */
static const char *gcm_fams[4] = { "sse", "avx_gen2", "avx_gen4", "vaes_avx512" };
static const int gcm_need[4] = { VK_F_SSE, VK_F_AVX, VK_F_AVX2, VK_F_VAES };
static struct isal_gcm_key_data gkd[4][2] __attribute__((aligned(64)));
static uint8_t g_key[2][32], g_iv[12], g_aad[64];
static uint8_t *g_one;   /* one-shot output of the same family */
static uint8_t g_one_tag[16];

static void gcm_prepare(void)
{
	for (int ks = 0; ks < 2; ks++) {
		vk_fill(g_key[ks], 32, 0x6c0 + ks);
		ref_aes_key k; ref_aes_expand(&k, g_key[ks], ks ? 256 : 128);
		for (int f = 0; f < 4; f++) {
			char nm[64]; snprintf(nm, sizeof nm, "_aes_gcm_precomp_%d_%s", ks ? 256 : 128, gcm_fams[f]);
			void *fn = vk_sym(nm);
			if (!fn || !vk_host_can(gcm_need[f])) continue;
			memset(&gkd[f][ks], 0, sizeof gkd[f][ks]);
			memcpy(gkd[f][ks].expanded_keys, k.rk, 16 * (k.nr + 1));
			VCALLN(fn, nm, AP(&gkd[f][ks]));
		}
	}
	vk_fill(g_iv, 12, 0x1f); vk_fill(g_aad, 64, 0xaad);
}
/* pieces pl[0..np); nt: non-temporal update entry */
static int gcm_stream(int f, int ks, int dec, int nt, const size_t *pl, int np, size_t aad, int place, int inplace, uint8_t prefill,
		      uint64_t poison, uint8_t *outcopy, uint8_t *tagcopy)
{
	char n_init[64], n_upd[80], n_fin[80], n_one[64], shape[240];
	int bits = ks ? 256 : 128;
	snprintf(n_init, sizeof n_init, "_aes_gcm_init_%d_%s", bits, gcm_fams[f]);
	snprintf(n_upd, sizeof n_upd, "_aes_gcm_%s_%d_update_%s%s", dec ? "dec" : "enc", bits, gcm_fams[f], nt ? "_nt" : "");
	snprintf(n_fin, sizeof n_fin, "_aes_gcm_%s_%d_finalize_%s", dec ? "dec" : "enc", bits, gcm_fams[f]);
	snprintf(n_one, sizeof n_one, "_aes_gcm_%s_%d_%s", dec ? "dec" : "enc", bits, gcm_fams[f]);
	void *f_init = vk_sym(n_init), *f_upd = vk_sym(n_upd), *f_fin = vk_sym(n_fin), *f_one = vk_sym(n_one);
	if (!f_init || !f_upd || !f_fin || !f_one) { vk_stat("missing_symbol", 1); return 2; }
	size_t tot = 0; int o = snprintf(shape, sizeof shape, "pieces=");
	for (int i = 0; i < np; i++) { o += snprintf(shape + o, sizeof shape - o, "%s%zu", i ? "," : "", pl[i]); tot += pl[i]; }
	snprintf(shape + o, sizeof shape - o, " aad=%zu place=%d inplace=%d", aad, place, inplace);
	const uint8_t *src = pool + (dec ? 20000 : 0);      /* arbitrary bytes serve as plaintext or ciphertext */
	if (secrets_mode) {
		vk_sec_reset(); vk_sec_add_key(g_key[ks], bits);
		ref_aes_key k; uint8_t h[16], hr[16]; ref_aes_expand(&k, g_key[ks], bits); ref_gcm_hashkey(&k, h);
		for (int i = 0; i < 16; i++) hr[i] = h[15 - i];
		vk_sec_add(h, "hashkey_be", 0); vk_sec_add(hr, "hashkey_le", 0);
		const uint8_t *tab = gkd[f][ks].shifted_hkey_1;
		for (size_t i = 0; i + 16 <= sizeof(struct isal_gcm_key_data) - offsetof(struct isal_gcm_key_data, shifted_hkey_1); i += 16) vk_sec_add(tab + i, "hkeytab", (int)(i / 16));
	}
	/* one-shot of the same family on the concatenation */
	struct isal_gcm_context_data c1;
	size_t o_kd = vk_place(&s_key, sizeof(struct isal_gcm_key_data), VK_END, 16, 0);
	memcpy(s_key.rw + o_kd, &gkd[f][ks], sizeof(struct isal_gcm_key_data));
	const uint8_t *kd = s_key.ro + o_kd;
	const uint8_t *p_iv = piece(&s_iv, g_iv, 12, VK_END, 0), *p_aad = piece(&s_aad, g_aad, aad, VK_END, 0);
	int save_abi = vk_abi_enabled;
	vk_call_poison = poison;
	if (VK_TRY()) { VCALLN(f_one, n_one, AP(kd), AP(&c1), AP(g_one), AP(src), A64(tot), AP(p_iv), AP(p_aad), A64(aad), AP(g_one_tag), A64(16)); VK_END_TRY(); }
	else { fault_report(n_one, shape); return 1; }
	vk_abi_enabled = save_abi;
	size_t o_ctx = vk_place(&s_ctx, sizeof(struct isal_gcm_context_data), VK_END, 8, 0), o_tag = vk_place(&s_tag, 16, VK_END, 1, 0), o_out;
	vk_canary_fill(&s_ctx); memset(s_ctx.rw + o_ctx, prefill, sizeof(struct isal_gcm_context_data));
	vk_canary_fill(&s_tag); memset(s_tag.rw + o_tag, prefill, 16);
	uint8_t *ctx = s_ctx.rw + o_ctx, *tag = s_tag.rw + o_tag;
	size_t al = nt ? 64 : 1;
	/* whole output buffer end-flush (aligned down for nt); pieces at natural offsets */
	o_out = vk_place(&s_out, tot, place == VK_START ? VK_START : VK_END, al, 0);
	vk_canary_fill(&s_out); memset(s_out.rw + o_out, prefill, tot);
	uint8_t *out = s_out.rw + o_out;
	const uint8_t *in;
	if (inplace) { memcpy(out, src, tot); in = out; }
	else { size_t o_in = vk_place(&s_in, tot, place == VK_START ? VK_START : VK_END, al, 0); memcpy(s_in.rw + o_in, src, tot); in = s_in.ro + o_in; }
	int faulted = 0; const char *volatile cur = n_init;
	vk_alarm(5000);
	if (VK_TRY()) {
		VCALLN(f_init, n_init, AP(kd), AP(ctx), AP(p_iv), AP(p_aad), A64(aad));
		if (secrets_mode) vk_sec_scan(n_init, shape);
		size_t pos = 0; cur = n_upd;
		for (int i = 0; i < np; i++) {
			VCALLN(f_upd, n_upd, AP(kd), AP(ctx), AP(out + pos), AP(in + pos), A64(pl[i]));
			if (secrets_mode) vk_sec_scan(n_upd, shape);
			vk_stat("calls_update", 1);
			pos += pl[i];
			/* output so far must already be the one-shot prefix, bytes beyond untouched */
			if (memcmp(out, g_one, pos)) {
				char key[160]; size_t d = 0; while (d < pos && out[d] == g_one[d]) d++;
				snprintf(key, sizeof key, "%s:prefix", n_upd);
				vk_violation("C07", key, NULL, "%s: output after update #%d differs from one-shot output at byte %zu (%s)", n_upd, i + 1, d, shape);
				break;
			}
		}
		cur = n_fin;
		VCALLN(f_fin, n_fin, AP(kd), AP(ctx), AP(tag), A64(16));
		if (secrets_mode) vk_sec_scan(n_fin, shape);
		VK_END_TRY();
	} else faulted = 1;
	vk_alarm(0);
	vk_stat("streams", 1);
	if (faulted) { fault_report(cur, shape); return 1; }
	canary_report(n_upd, "out", &s_out, o_out, tot, shape);
	canary_report(n_fin, "tag", &s_tag, o_tag, 16, shape);
	canary_report(n_upd, "ctx", &s_ctx, o_ctx, sizeof(struct isal_gcm_context_data), shape);
	if (memcmp(out, g_one, tot) || memcmp(tag, g_one_tag, 16)) {
		char key[160]; snprintf(key, sizeof key, "%s:final", n_upd);
		vk_violation("C07", key, NULL, "%s/%s: streaming result differs from the one-shot call (%s; tag %s)", n_upd, n_fin, memcmp(out, g_one, tot) ? "data differs" : "data ok", memcmp(tag, g_one_tag, 16) ? "differs" : "ok");
	}
	if (outcopy) memcpy(outcopy, out, tot);
	if (tagcopy) memcpy(tagcopy, tag, 16);
	vk_distinct("shape", vk_hash(shape, strlen(shape), vk_hash(n_upd, strlen(n_upd), 6)));
	return 0;
}
static void gcms_case(int f, int ks, int dec, int nt, const size_t *pl, int np, size_t aad, long idx)
{
	static uint8_t o1[8192], o2[8192], t1[16], t2[16];
	if (secrets_mode) { if (idx % 7 == 0 || vk_thorough) gcm_stream(f, ks, dec, nt, pl, np, aad, VK_END, idx & 1, 0, 0x5a5a5a5a5a5a5a5aULL, NULL, NULL); }
	else if (guard_mode) {
		gcm_stream(f, ks, dec, nt, pl, np, aad, VK_END, idx & 1, 0, 0x5a5a5a5a5a5a5a5aULL, NULL, NULL);
		gcm_stream(f, ks, dec, nt, pl, np, aad, VK_START, (idx >> 1) & 1, 0, 0x5a5a5a5a5a5a5a5aULL, NULL, NULL);
	} else if (pair_mode) {
		size_t tot = 0; for (int i = 0; i < np; i++) tot += pl[i];
		int a = gcm_stream(f, ks, dec, nt, pl, np, aad, VK_END, idx & 1, 0x00, 0x1111111111111111ULL, o1, t1);
		int b = gcm_stream(f, ks, dec, nt, pl, np, aad, VK_END, idx & 1, 0xff, 0xfedcba9876543210ULL, o2, t2);
		if (!a && !b && (memcmp(o1, o2, tot) || memcmp(t1, t2, 16))) { char key[128]; snprintf(key, sizeof key, "gcm_stream_%s_%d_%s%s:pair", dec ? "dec" : "enc", ks, gcm_fams[f], nt ? "_nt" : ""); vk_violation("C20", key, NULL, "streaming result depends on hidden inputs"); }
		vk_stat("pairs", 1);
	} else gcm_stream(f, ks, dec, nt, pl, np, aad, VK_END, idx & 1, 0x3c, 0x5a5a5a5a5a5a5a5aULL, NULL, NULL);
}
static void gcms_sweep(void)
{
	static const size_t aads[4] = { 0, 1, 16, 20 };
	gcm_prepare();
	g_one = malloc(8192);
	long item = 0, idx = 0;
	if (vk_want_trace) vk_thorough = 0;
	int maxsum = vk_want_trace ? 6 : vk_thorough ? ((guard_mode || pair_mode || secrets_mode) ? 96 : 144) : ((guard_mode || pair_mode || secrets_mode) ? 40 : 64);
	for (int f = 0; f < 4; f++) for (int ks = 0; ks < 2; ks++) for (int dec = 0; dec < 2; dec++) {
		if (!vk_host_can(gcm_need[f])) { vk_stat("skipped_family_not_executable_on_host", 1); continue; }
		if (vk_only && !strstr(gcm_fams[f], vk_only)) continue;
		if (vk_want_trace) {
			/* ISA measurement: a few streams that reach the partial-block, bulk-loop and tail code of every update entry */
			if (item++ % vk_nshards != vk_shard) continue;
			size_t t1[3] = { 5, 17, 33 }, t2[3] = { 300, 7, 800 }, t3[3] = { 64, 128, 33 }, t4[3] = { 0, 0, 0 };
			gcms_case(f, ks, dec, 0, t1, 3, 20, 0); gcms_case(f, ks, dec, 0, t2, 3, 1, 1); gcms_case(f, ks, dec, 0, t4, 3, 0, 0);
			gcms_case(f, ks, dec, 1, t3, 3, 16, 0);
			continue;
		}
		/* (a) all compositions of len <= maxsum into <= 3 pieces (zero-length pieces included) */
		for (size_t l1 = 0; l1 <= (size_t)maxsum; l1++) {
			if (item++ % vk_nshards != vk_shard) continue;
			if (vk_deadline_hit()) { vk_stat("deadline_skipped", 1); continue; }
			for (size_t l2 = 0; l1 + l2 <= (size_t)maxsum; l2++) for (size_t l3 = 0; l1 + l2 + l3 <= (size_t)maxsum; l3++) {
				size_t pl[3] = { l1, l2, l3 };
				gcms_case(f, ks, dec, 0, pl, 3, aads[(l1 + l2 + l3) & 3], idx++);
			}
		}
		/* (b) carried residue r x fill amounts around the completion point and into the bulk loops */
		for (size_t r = 0; r < 16; r++) {
			if (item++ % vk_nshards != vk_shard) continue;
			static const long fills[] = { -1, 0, 1, 15, 16, 17, 127, 128, 129, 255, 256, 257, 767, 768, 769 };
			for (unsigned fi = 0; fi < sizeof fills / sizeof *fills; fi++) for (size_t pre = 0; pre <= 32; pre += 16) {
				long l2 = (long)(16 - r) + fills[fi];
				if (l2 < 0) continue;
				for (size_t l3 = 0; l3 <= 17; l3 += (vk_thorough ? 1 : 8)) {
					size_t pl[3] = { pre + r, (size_t)l2, l3 };
					gcms_case(f, ks, dec, 0, pl, 3, aads[(r + fi) & 3], idx++);
				}
			}
		}
		/* (c) first piece 0..48 followed by a loop-boundary piece */
		for (size_t l1 = 0; l1 <= 48; l1++) {
			if (item++ % vk_nshards != vk_shard) continue;
			static const size_t big[] = { 127, 128, 129, 255, 256, 767, 768, 769, 1023, 2047, 2048 };
			for (unsigned bi = 0; bi < sizeof big / sizeof *big; bi++) { size_t pl[2] = { l1, big[bi] }; gcms_case(f, ks, dec, 0, pl, 2, aads[(l1 + bi) & 3], idx++); size_t pl2[3] = { big[bi], l1, 5 }; gcms_case(f, ks, dec, 0, pl2, 3, aads[l1 & 3], idx++); }
		}
		/* (e) thorough: four pieces (every residue pair carried twice) and pairs of loop-boundary pieces */
		if (vk_thorough && !guard_mode && !pair_mode && !secrets_mode) {
			for (size_t l1 = 0; l1 <= 33; l1++) {
				if (item++ % vk_nshards != vk_shard) continue;
				if (vk_deadline_hit()) { vk_stat("deadline_skipped", 1); continue; }
				static const size_t l4s[] = { 0, 1, 15, 16, 17, 200 };
				for (size_t l2 = 0; l2 <= 33; l2++) for (size_t l3 = 0; l3 <= 33; l3++) for (unsigned k = 0; k < 6; k++) {
					size_t pl[4] = { l1, l2, l3, l4s[k] };
					gcms_case(f, ks, dec, 0, pl, 4, aads[(l1 + l2 + l3 + k) & 3], idx++);
				}
			}
			static const size_t bg[] = { 111, 112, 127, 128, 129, 255, 256, 257, 511, 512, 513, 767, 768, 769, 1023, 1024, 1025, 2047, 2048, 2049 };
			for (unsigned b1 = 0; b1 < sizeof bg / sizeof *bg; b1++) {
				if (item++ % vk_nshards != vk_shard) continue;
				for (unsigned b2 = 0; b2 < sizeof bg / sizeof *bg; b2++) for (size_t l3 = 0; l3 <= 17; l3++) {
					size_t pl[3] = { bg[b1], bg[b2], l3 };
					gcms_case(f, ks, dec, 0, pl, 3, aads[(b1 + b2 + l3) & 3], idx++);
				}
			}
		}
		/* (d) non-temporal updates under the documented rule: 64-byte aligned buffers, non-final pieces multiples of 64 */
		for (size_t a = 0; a <= 1024; a += 64) {
			if (item++ % vk_nshards != vk_shard) continue;
			for (size_t b = 0; b <= 512; b += 64) for (size_t tail = 0; tail <= (vk_thorough ? 130u : 66u); tail += (vk_thorough ? 1 : 5)) {
				size_t pl[3] = { a, b, tail };
				gcms_case(f, ks, dec, 1, pl, 3, aads[(a / 64 + tail) & 3], idx++);
			}
		}
	}
}

int main(int argc, char **argv)
{
	const char *v;
	vk_init(argc, argv);
	if (vk_opt("prop", &v)) prop = v;
	if (vk_opt("what", &v)) what = v;
	guard_mode = !strcmp(prop, "C08");
	pair_mode = !strcmp(prop, "C20");
	secrets_mode = !strcmp(prop, "C14");
	if (vk_want_trace) vk_trace_enable();
	if (secrets_mode) vk_call_mode = VC_POISON_REGS | VC_STACK | VC_CAPVEC;
	else if (pair_mode) vk_call_mode = VC_POISON_REGS | VC_STACK;
	else if (!strcmp(prop, "C19")) vk_call_mode = VC_POISON_REGS;
	if (ref_run_kats(0)) { fprintf(stderr, "reference KATs failed\n"); return 2; }
	if (vk_want_wtrap) vk_wtrap_enable();
	vk_slot_init(&s_in, "in", 16384, 1); vk_slot_init(&s_in2, "in2", 16384, 1);
	vk_slot_init(&s_out, "out", 16384, 0); vk_slot_init(&s_ctx, "ctx", 16384, 0);
	vk_slot_init(&s_dig, "digest", 4096, 0); vk_slot_init(&s_dig2, "digest2", 4096, 0);
	vk_slot_init(&s_key, "key", 8192, 1); vk_slot_init(&s_iv, "iv", 4096, 1); vk_slot_init(&s_aad, "aad", 4096, 1);
	vk_slot_init(&s_tag, "tag", 4096, 0); vk_slot_init(&s_misc, "misc", 4096, 0);
	pool = malloc(POOL); vk_fill(pool, POOL, 0xda7a);
	/* the multi-hash streams are prefixes of the pool placed so that the stream end is flush with the guard page */
	int functional = !guard_mode && !pair_mode && !secrets_mode && !vk_want_trace;
	if (want("mh1")) { /* stream placement: end of slot = end of the longest stream; per-stream the start moves */ mh_sweep(0); if (functional) { mh_tele_sweep(0); if (vk_thorough) mh_big(0); } }
	if (want("mh256")) { mh_sweep(1); if (functional) { mh_tele_sweep(1); if (vk_thorough) mh_big(1); } }
	if (want("mur")) { mh_sweep(2); if (functional) { mh_tele_sweep(2); if (vk_thorough) mh_big(2); } }
	if (want("roll")) roll_sweep();
	if (want("blocks") && vk_shard == 0 && !vk_want_trace) blocks_sweep();
	if (want("gcms")) gcms_sweep();
	vk_sample("mh: _mh_sha1_update_avx2 pieces=1009,1039 then finalize vs multi-hash definition; rolling: w=13 impl=_00 mask=3 trigger=1 pos=5 max_len=14 -> (offset,match,hash,history) vs definition; gcm stream: _aes_gcm_enc_128_update_sse pieces=7,9,33 aad=20 vs one-shot");
	vk_finish();
	return 0;
}
