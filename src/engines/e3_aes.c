/* E3 - AES shape sweep (DESIGN.md section 4, E3): exhaustive grids over (length, AAD length, tag
 * length, placement / alignment, in-place) for every AES family symbol of the freshly built library.
 * Oracles: own references (C02 C03 C04), guard pages + canaries (C08), trampoline ABI state (C19),
 * secret scan of registers and dead stack (C14), paired executions under different hidden inputs (C20).
 * --prop selects grid and monitors; every violation is tagged with the property it violates. */
#define _GNU_SOURCE
#include "vkit.h"
#include "ref.h"
#include <stdlib.h>
#include <aes_gcm.h>
#include <aes_cbc.h>
#include <aes_xts.h>
#include <aes_keyexp.h>

static const char *prop = "C02";
static int guard_mode;       /* C08: end-flush / start-flush placements */
static int secrets_mode;     /* C14 */
static int pair_mode;        /* C20 */
static int func_check = 1;   /* compare with reference */
static const char *what = "all";
static const size_t TRLENS[] = { 0, 1, 16, 17, 64, 129, 257, 769, 1025 };   /* single-stepping costs ~40 us per instruction here */
#define NTRLENS (sizeof TRLENS / sizeof *TRLENS)

#define SMALL_MAX ((size_t)1 << 17)
static size_t DATA_MAX = SMALL_MAX;   /* thorough functional runs: 16 MiB (documented XTS maximum, GCM counter carries at 1 MiB) */
static vk_slot s_in, s_out, s_aad, s_iv, s_tag, s_key, s_key2, s_ctx, s_tw;
static vk_slot b_in, b_out;
#define SI(len) ((len) > SMALL_MAX - 4096 ? &b_in : &s_in)
#define SO(len) ((len) > SMALL_MAX - 4096 ? &b_out : &s_out)
static uint8_t *pool;        /* plaintext pool */
static uint8_t *scratch1, *scratch2, *scratch3;

static int want(const char *w) { return !strcmp(what, "all") || !strcmp(what, w); }

/* ---- secrets (C14): scanning lives in the kit ---- */
#define sec_reset vk_sec_reset
#define sec_add vk_sec_add
#define sec_add_key vk_sec_add_key
static void secrets_scan(const char *fn, const char *shape) { if (secrets_mode) vk_sec_scan(fn, shape); }

/* ---- placement helpers ---- */
static uint8_t *put_in(vk_slot *s, const void *data, size_t n, int place, size_t align, size_t midoff, size_t *poff)
{
	size_t off = vk_place(s, n, place, align, midoff);
	if (n) memcpy(s->rw + off, data, n);
	if (poff) *poff = off;
	return s->ro + off;
}
static uint8_t *put_out(vk_slot *s, size_t n, int place, size_t align, size_t midoff, size_t *poff, uint8_t prefill)
{
	size_t off = vk_place(s, n, place, align, midoff);
	vk_canary_fill(s);
	memset(s->rw + off, prefill, n);
	*poff = off;
	return s->rw + off;
}
static void fault_report(const char *fn, const char *shape)
{
	char a[160], r[160], key[400];
	vk_describe_addr(vk_last_fault.addr, a, sizeof a);
	vk_describe_rip(vk_last_fault.rip, r, sizeof r);
	/* key: entry + object + direction (stable) */
	char obj[64]; snprintf(obj, sizeof obj, "%.60s", a); for (char *c = obj; *c; c++) if (*c == '+' || *c == '-' || *c == '(') { *c = 0; break; }
	snprintf(key, sizeof key, "%s:fault:%s:%s", fn, obj, vk_last_fault.sig == 14 ? "hang" : vk_last_fault.is_write ? "write" : "read");
	vk_violation("C08", key, NULL, "%s: signal %d at %s accessing %s (%s) shape %s", fn, vk_last_fault.sig, r, a,
		     vk_last_fault.is_write ? "write" : "read", shape);
	/* a call that dies produced no result: with valid arguments that is also a violation of the functional property the
	 * sweep decides (e.g. an aligned-load instruction on a caller buffer of arbitrary alignment is not an out-of-range access) */
	if (!strcmp(prop, "C02") || !strcmp(prop, "C03") || !strcmp(prop, "C04") || !strcmp(prop, "C05") || !strcmp(prop, "C07") || !strcmp(prop, "C09") || !strcmp(prop, "C10")) {
		snprintf(key, sizeof key, "%s:no_result:%s", fn, vk_last_fault.sig == 14 ? "hang" : "fault");
		vk_violation(prop, key, NULL, "%s did not return (signal %d at %s) for valid arguments: no result produced; shape %s", fn, vk_last_fault.sig, r, shape);
	}
}
static int canary_report(const char *fn, const char *obj, const vk_slot *s, size_t off, size_t n, const char *shape)
{
	long bad = vk_canary_check(s, off, n);
	if (bad < 0) return 0;
	char key[300];
	snprintf(key, sizeof key, "%s:canary:%s", fn, obj);
	vk_violation("C08", key, NULL, "%s wrote outside %s: byte at offset %ld relative to the %zu-byte object, shape %s", fn, obj,
		     bad - (long)off, n, shape);
	return 1;
}

/* ================= GCM one-shot ================= */
static const char *gcm_fams[4] = { "sse", "avx_gen2", "avx_gen4", "vaes_avx512" };
static const int gcm_need[4] = { VK_F_SSE, VK_F_AVX, VK_F_AVX2, VK_F_VAES };

static struct isal_gcm_key_data gcm_kd[4][2] __attribute__((aligned(64)));  /* [fam][keysize] */
static uint8_t gcm_rawkey[2][32];
static uint8_t gcm_iv[12];

static void gcm_secrets(int f, int ks);
static void gcm_prepare_keys(void)
{
	for (int ks = 0; ks < 2; ks++) {
		int bits = ks ? 256 : 128;
		vk_fill(gcm_rawkey[ks], 32, 0x6c0 + ks);
		ref_aes_key k; ref_aes_expand(&k, gcm_rawkey[ks], bits);
		for (int f = 0; f < 4; f++) {
			char nm[64];
			if (!vk_host_can(gcm_need[f])) continue;
			snprintf(nm, sizeof nm, "_aes_gcm_precomp_%d_%s", bits, gcm_fams[f]);
			void *fn = vk_sym(nm);
			if (!fn) continue;
			memset(&gcm_kd[f][ks], 0, sizeof gcm_kd[f][ks]);
			memcpy(gcm_kd[f][ks].expanded_keys, k.rk, 16 * (k.nr + 1));
			/* key data is an in/out object here: exact-size, end-flush */
			size_t off = vk_place(&s_ctx, sizeof(struct isal_gcm_key_data), VK_END, 16, 0);
			vk_canary_fill(&s_ctx);
			memcpy(s_ctx.rw + off, &gcm_kd[f][ks], sizeof gcm_kd[f][ks]);
			if (VK_TRY()) { VCALLN(fn, nm, AP(s_ctx.rw + off)); VK_END_TRY(); memcpy(&gcm_kd[f][ks], s_ctx.rw + off, sizeof gcm_kd[f][ks]); canary_report(nm, "key_data", &s_ctx, off, sizeof(struct isal_gcm_key_data), "precomp");
				if (secrets_mode && vk_shard == 0) { gcm_secrets(f, ks); secrets_scan(nm, "precomp"); } }
			else fault_report(nm, "precomp");
		}
	}
	vk_fill(gcm_iv, 12, 0x1f);
}
static void gcm_secrets(int f, int ks)
{
	sec_reset();
	sec_add_key(gcm_rawkey[ks], ks ? 256 : 128);
	ref_aes_key k; uint8_t h[16], hr[16];
	ref_aes_expand(&k, gcm_rawkey[ks], ks ? 256 : 128);
	ref_gcm_hashkey(&k, h);
	for (int i = 0; i < 16; i++) hr[i] = h[15 - i];
	sec_add(h, "hashkey_be", 0); sec_add(hr, "hashkey_le", 0);
	/* every 16-byte entry of the hash-key table the library produced */
	const uint8_t *tab = gcm_kd[f][ks].shifted_hkey_1;
	size_t n = sizeof(struct isal_gcm_key_data) - offsetof(struct isal_gcm_key_data, shifted_hkey_1);
	for (size_t i = 0; i + 16 <= n && i < 64 * 16; i += 16) sec_add(tab + i, "hkeytab", (int)(i / 16));
}

struct gcm_ref { size_t len, aad; int ks; uint8_t tag[16]; int valid; };
static struct gcm_ref gref;
static uint8_t *gref_ct;
static uint8_t gcm_aad[2048];

static void gcm_ref_get(int ks, size_t len, size_t aad)
{
	if (gref.valid && gref.ks == ks && gref.len == len && gref.aad == aad) return;
	ref_aes_key k; ref_aes_expand(&k, gcm_rawkey[ks], ks ? 256 : 128);
	ref_gcm_enc(&k, gcm_iv, gcm_aad, aad, pool, gref_ct, len, gref.tag);
	gref.ks = ks; gref.len = len; gref.aad = aad; gref.valid = 1;
	vk_stat("reference_computations", 1);
}

/* one GCM one-shot call; returns 0 if evaluated */
static void gcm_call(int f, int ks, int dec, int nt, size_t len, size_t aad, int taglen, int place, size_t midoff, int inplace,
		     uint8_t prefill, uint64_t poison, uint8_t *outcopy, uint8_t *tagcopy, int *faulted, const char *entry_override)
{
	char nm[80], shape[160];
	int bits = ks ? 256 : 128;
	if (entry_override) snprintf(nm, sizeof nm, "%s", entry_override);
	else snprintf(nm, sizeof nm, "_aes_gcm_%s_%d_%s%s", dec ? "dec" : "enc", bits, gcm_fams[f], nt ? "_nt" : "");
	void *fn = vk_sym(nm);
	if (!fn) { vk_stat("missing_symbol", 1); *faulted = 2; return; }
	snprintf(shape, sizeof shape, "len=%zu aad=%zu tag=%d place=%s off=%zu inplace=%d", len, aad, taglen,
		 place == VK_END ? "end" : place == VK_START ? "start" : "mid", midoff, inplace);
	const uint8_t *src = dec ? gref_ct : pool, *expect = dec ? pool : gref_ct;
	size_t o_in, o_out, o_tag, o_ctx, o_key;
	size_t al = nt ? 64 : 1;
	uint8_t *p_key = put_in(&s_key, &gcm_kd[f][ks], sizeof(struct isal_gcm_key_data), VK_END, 16, 0, &o_key);
	uint8_t *p_iv = put_in(&s_iv, gcm_iv, 12, place == VK_START ? VK_START : VK_END, 1, 0, NULL);
	uint8_t *p_aad = put_in(&s_aad, gcm_aad, aad, place == VK_START ? VK_START : VK_END, 1, 0, NULL);
	uint8_t *p_tag = put_out(&s_tag, taglen, place == VK_START ? VK_START : VK_END, 1, 0, &o_tag, prefill);
	uint8_t *p_ctx = put_out(&s_ctx, sizeof(struct isal_gcm_context_data), VK_END, 8, 0, &o_ctx, prefill ^ 0x55);
	uint8_t *p_in, *p_out;
	int pl = place;
	if (nt && place == VK_END && len % 64) pl = VK_START;
	if (inplace) {
		p_out = put_out(SO(len), len, pl, al, 64 * 3 + midoff, &o_out, prefill);
		memcpy(p_out, src, len);
		p_in = p_out;
	} else {
		p_in = put_in(SI(len), src, len, pl, al, 64 * 5 + midoff, &o_in);
		p_out = put_out(SO(len), len, pl, al, 64 * 3 + (nt ? 0 : (midoff * 7) % 64), &o_out, prefill);
	}
	vk_call_poison = poison;
	*faulted = 0;
	vk_alarm(DATA_MAX > (1 << 20) ? 60000 : 5000);
	if (VK_TRY()) {
		VCALLN(fn, nm, AP(p_key), AP(p_ctx), AP(p_out), AP(p_in), A64(len), AP(p_iv), AP(p_aad), A64(aad), AP(p_tag), A64(taglen));
		VK_END_TRY();
	} else { *faulted = 1; }
	vk_alarm(0);
	vk_stat("calls_gcm", 1);
	if (*faulted) { fault_report(nm, shape); return; }
	canary_report(nm, "out", SO(len), o_out, len, shape);
	canary_report(nm, "tag", &s_tag, o_tag, taglen, shape);
	canary_report(nm, "ctx", &s_ctx, o_ctx, sizeof(struct isal_gcm_context_data), shape);
	if (func_check && (memcmp(p_out, expect, len) || memcmp(p_tag, gref.tag, taglen))) {
		char key[160]; size_t d = 0; while (d < len && p_out[d] == expect[d]) d++;
		snprintf(key, sizeof key, "%s:mismatch", nm);
		vk_violation(prop, key, NULL, "%s output differs from SP 800-38D reference (first diff at byte %zu of %zu, tag %s) %s", nm, d, len,
			     memcmp(p_tag, gref.tag, taglen) ? "differs" : "ok", shape);
	}
	if (outcopy) memcpy(outcopy, p_out, len);
	if (tagcopy) memcpy(tagcopy, p_tag, taglen);
	secrets_scan(nm, shape);
	vk_distinct("shape", vk_hash(shape, strlen(shape), vk_hash(nm, strlen(nm), 1)));
}

/* key-precompute entry points (public, legacy, internal C wrapper) bound to every keyexp x precomp family */
static void gcm_pre_scan(void)
{
	static const char *kx[2] = { "sse", "avx" };
	for (int ks = 0; ks < 2; ks++) for (int kf = 0; kf < 2; kf++) for (int f = 0; f < 4; f++) for (int e = 0; e < 3; e++) {
		int bits = ks ? 256 : 128;
		char b[96], en[64];
		if (!vk_host_can(gcm_need[f]) || !vk_host_can(kf ? VK_F_AVX : VK_F_SSE)) continue;
		snprintf(b, sizeof b, "_aes_keyexp_%d_dispatched", bits); void **s1 = vk_sym(b);
		snprintf(b, sizeof b, "_aes_gcm_precomp_%d_dispatched", bits); void **s2 = vk_sym(b);
		snprintf(b, sizeof b, "_aes_keyexp_%d_%s", bits, kx[kf]); void *t1 = vk_sym(b);
		snprintf(b, sizeof b, "_aes_gcm_precomp_%d_%s", bits, gcm_fams[f]); void *t2 = vk_sym(b);
		snprintf(en, sizeof en, e == 0 ? "isal_aes_gcm_pre_%d" : e == 1 ? "aes_gcm_pre_%d" : "_aes_gcm_pre_%d", bits);
		void *fn = vk_sym(en);
		if (!s1 || !s2 || !t1 || !t2 || !fn) { vk_stat("missing_symbol", 1); continue; }
		*s1 = t1; *s2 = t2;
		char nm[128], shape[64]; snprintf(nm, sizeof nm, "%s[keyexp_%s,precomp_%s]", en, kx[kf], gcm_fams[f]);
		snprintf(shape, sizeof shape, "key%d", bits);
		size_t off = vk_place(&s_ctx, sizeof(struct isal_gcm_key_data), VK_END, 16, 0);
		vk_canary_fill(&s_ctx);
		const uint8_t *pk = put_in(&s_key, gcm_rawkey[ks], bits / 8, VK_END, 1, 0, NULL);
		int faulted = 0;
		if (VK_TRY()) { VCALLN(fn, nm, AP(pk), AP(s_ctx.rw + off)); VK_END_TRY(); } else faulted = 1;
		vk_stat("calls_gcm_pre", 1);
		if (faulted) { fault_report(nm, shape); continue; }
		canary_report(nm, "key_data", &s_ctx, off, sizeof(struct isal_gcm_key_data), shape);
		/* defined part of the key data: (rounds+1) round keys and the hash-key table (first 8 powers) */
		if (func_check && !secrets_mode && (memcmp(s_ctx.rw + off, &gcm_kd[f][ks], 16 * (ks ? 15 : 11)) ||
		    memcmp(s_ctx.rw + off + offsetof(struct isal_gcm_key_data, shifted_hkey_1), gcm_kd[f][ks].shifted_hkey_1, 16 * 8))) {
			char key[160]; snprintf(key, sizeof key, "%s:keydata", nm);
			vk_violation("C02", key, NULL, "%s key data differs from the family precompute over the FIPS-197 schedule", nm);
		}
		if (secrets_mode) {
			memcpy(&gcm_kd[f][ks], s_ctx.rw + off, sizeof gcm_kd[f][ks]);
			gcm_secrets(f, ks);
			secrets_scan(nm, shape);
		}
	}
}

static void gcm_sweep(void)
{
	static const int aad_quick[] = { 0, 1, 15, 16, 17, 20, 32, 48, 65, 128, 255, 513 };   /* incl. the 8-block and 32-block AAD loops */
	static int aad_thor[80]; int n_aad_thor = 0;
	for (int a = 0; a <= 33; a++) aad_thor[n_aad_thor++] = a;
	{ int ex[] = { 47, 48, 49, 63, 64, 65, 127, 128, 129, 255, 256, 257, 1023, 1024, 1025 }; for (unsigned i = 0; i < sizeof ex / sizeof *ex; i++) aad_thor[n_aad_thor++] = ex[i]; }
	static const int tags[3] = { 8, 12, 16 };
	/* lengths */
	size_t *lens = malloc(sizeof(size_t) * 4000); int nl = 0;
	size_t maxl = (secrets_mode || pair_mode) ? (vk_thorough ? 1100 : 300) : (guard_mode && !vk_thorough ? 600 : 1100);
	for (size_t l = 0; l <= maxl; l++) lens[nl++] = l;
	if (!secrets_mode && !pair_mode) {
		int w = vk_thorough ? 320 : 20;
		for (size_t l = 4096 - w; l <= 4096 + (size_t)w; l++) lens[nl++] = l;
		w = vk_thorough ? 64 : 17;
		for (size_t l = 65536 - w; l <= 65536 + (size_t)w; l++) lens[nl++] = l;
		/* second counter byte carries at block 65534 (byte 2^20-32) */
		if (DATA_MAX > (1 << 20) + 64) { static const int d[] = { -33, -31, -16, 0, 1, 47 }; for (unsigned i = 0; i < 6; i++) lens[nl++] = (size_t)((1 << 20) + d[i]); }
	} else { lens[nl++] = 2048; lens[nl++] = 4097; }
	if (vk_want_trace) { nl = 0; for (unsigned i = 0; i < NTRLENS; i++) lens[nl++] = TRLENS[i]; }
	gcm_prepare_keys();
	if (vk_shard == 0) gcm_pre_scan();
	vk_fill(gcm_aad, sizeof gcm_aad, 0xaad);
	uint8_t *o1 = scratch1, *o2 = scratch2, t1[16], t2[16];
	for (int li = 0; li < nl; li++) {
		size_t len = lens[li];
		if (li % vk_nshards != vk_shard) continue;
		if (vk_deadline_hit()) { vk_stat("deadline_skipped_lens", 1); continue; }
		const int *aads = vk_thorough ? aad_thor : aad_quick;
		int na = vk_thorough ? n_aad_thor : (int)(sizeof aad_quick / sizeof *aad_quick);
		for (int ks = 0; ks < 2; ks++) for (int ai = 0; ai < na; ai++) {
			size_t aad = aads[ai];
			/* big lengths: a reduced AAD set keeps the slow reference affordable */
			if (len > 1100 && ai % 3 != (int)(len % 3) && !(vk_thorough && len < 5000)) continue;
			if (vk_want_trace && ai != (li & 1) * 3) continue;
			if ((secrets_mode || pair_mode || guard_mode) && !vk_thorough && ai % 3 != (int)(len % 3)) continue;
			gcm_ref_get(ks, len, aad);
			for (int f = 0; f < 4; f++) {
				if (!vk_host_can(gcm_need[f])) { vk_stat("skipped_family_not_executable_on_host", 1); continue; }
				if (vk_only && !strstr(gcm_fams[f], vk_only)) continue;
				if (secrets_mode) gcm_secrets(f, ks);
				for (int dec = 0; dec < 2; dec++) for (int nt = 0; nt < 2; nt++) {
					for (int ti = 0; ti < 3; ti++) {
						int tl = tags[ti];
						/* tag length only matters in GCM_COMPLETE: full tag sweep on a residue subset */
						if (ti != 2 && (len % 16) > 2 && len > 64 && !vk_thorough) continue;
						if (vk_want_trace && ti != 2) continue;
						int fl;
						if (guard_mode) {
							for (int pl = VK_END; pl <= VK_START; pl++) for (int ip = 0; ip < 2; ip++) {
								if (ip && ti != 2) continue;
								gcm_call(f, ks, dec, nt, len, aad, tl, pl, 0, ip, 0, 0x5a5a5a5a5a5a5a5aULL, NULL, NULL, &fl, NULL);
							}
						} else if (pair_mode) {
							int fl2;
							int ip = (len + ti) & 1;
							gcm_call(f, ks, dec, nt, len, aad, tl, VK_MID, nt ? 0 : len % 16, ip, 0x00, 0x1111111111111111ULL, o1, t1, &fl, NULL);
							gcm_call(f, ks, dec, nt, len, aad, tl, VK_MID, nt ? 0 : len % 16, ip, 0xff, 0xfedcba9876543210ULL, o2, t2, &fl2, NULL);
							if (!fl && !fl2 && (memcmp(o1, o2, len) || memcmp(t1, t2, tl))) {
								char key[128]; snprintf(key, sizeof key, "gcm_%s_%d_%s%s:pair", dec ? "dec" : "enc", ks ? 256 : 128, gcm_fams[f], nt ? "_nt" : "");
								vk_violation("C20", key, NULL, "result depends on hidden inputs (prefill/registers/stack): len=%zu aad=%zu tag=%d", len, aad, tl);
							}
							vk_stat("pairs", 1);
						} else if (secrets_mode) {
							gcm_call(f, ks, dec, nt, len, aad, tl, VK_MID, 0, 0, 0, 0x5a5a5a5a5a5a5a5aULL, NULL, NULL, &fl, NULL);
						} else {
							int noff = vk_thorough ? 16 : 2;
							if (nt || vk_want_trace) noff = 1;
							if (len > 100000 && noff > 2) noff = 2;
							/* offsets: all residues over the sweep (len-dependent), in-place alternating */
							for (int oi = 0; oi < noff; oi++) {
								size_t off = vk_thorough ? (size_t)oi : (oi ? 1 + len % 15 : 0);
								if (vk_thorough && oi > 1 && ti != 2) continue;
								gcm_call(f, ks, dec, nt, len, aad, tl, VK_MID, off, (oi + ti) & 1, 0, 0x5a5a5a5a5a5a5a5aULL, NULL, NULL, &fl, NULL);
							}
						}
					}
				}
			}
		}
	}
	free(lens);
}

/* ================= XTS ================= */
static const char *xts_fams[3] = { "sse", "avx", "vaes" };
static const int xts_need[3] = { VK_F_SSE, VK_F_AVX, VK_F_VAES };
static uint8_t xts_k1[32], xts_k2[32], xts_tw[3][16];
static uint8_t *xref; static struct { size_t len; int ks, tw, valid; } xr;

static void xts_ref_get(int ks, int tw, size_t len)
{
	if (xr.valid && xr.len == len && xr.ks == ks && xr.tw == tw) return;
	ref_aes_key a, b; ref_aes_expand(&a, xts_k1, ks ? 256 : 128); ref_aes_expand(&b, xts_k2, ks ? 256 : 128);
	if (len >= 16) ref_xts_enc(&a, &b, xts_tw[tw], pool, xref, len);
	xr.len = len; xr.ks = ks; xr.tw = tw; xr.valid = 1;
	vk_stat("reference_computations", 1);
}
/* entry: 0 family symbol, 1 isal_ public, 2 legacy */
static void xts_call(int f, int ks, int dec, int expanded, int tw, size_t len, int place, size_t midoff, int inplace, uint8_t prefill,
		     uint64_t poison, uint8_t *outcopy, int *faulted, int entry, int lib_sched)
{
	char nm[96], shape[160];
	int bits = ks ? 256 : 128, nr = ks ? 14 : 10;
	if (entry == 0) snprintf(nm, sizeof nm, "_XTS_AES_%d_%s%s_%s", bits, dec ? "dec" : "enc", expanded ? "_expanded_key" : "", xts_fams[f]);
	else if (entry == 1) snprintf(nm, sizeof nm, "isal_aes_xts_%s_%d%s", dec ? "dec" : "enc", bits, expanded ? "_expanded_key" : "");
	else snprintf(nm, sizeof nm, "XTS_AES_%d_%s%s", bits, dec ? "dec" : "enc", expanded ? "_expanded_key" : "");
	void *fn = vk_sym(nm);
	*faulted = 2;
	if (!fn) { vk_stat("missing_symbol", 1); return; }
	snprintf(shape, sizeof shape, "len=%zu tweak=%d place=%s off=%zu inplace=%d sched=%s", len, tw, place == VK_END ? "end" : place == VK_START ? "start" : "mid", midoff,
		 inplace, lib_sched ? "lib" : "ref");
	uint8_t k1buf[16 * 15], k2buf[16 * 15];
	size_t k1n = bits / 8, k2n = bits / 8;
	if (expanded) {
		ref_aes_key a, b; ref_aes_expand(&a, xts_k1, bits); ref_aes_expand(&b, xts_k2, bits);
		k1n = k2n = 16 * (nr + 1);
		memcpy(k2buf, b.rk, k2n);
		if (dec) { uint8_t dk[15][16]; ref_aes_dec_schedule(&a, dk); memcpy(k1buf, dk, k1n); }
		else memcpy(k1buf, a.rk, k1n);
		if (lib_sched) {
			/* schedules produced by the library's own key expansion */
			char kn[48]; snprintf(kn, sizeof kn, "_aes_keyexp_%d", bits);
			void *kf = vk_sym(kn);
			uint8_t e[240], d[240];
			if (kf) {
				vk_abi_enabled = 0;
				VCALLN(kf, kn, AP(xts_k1), AP(e), AP(d)); memcpy(k1buf, dec ? d : e, k1n);
				VCALLN(kf, kn, AP(xts_k2), AP(e), AP(d)); memcpy(k2buf, e, k2n);
				vk_abi_enabled = 1;
			}
		}
	} else { memcpy(k1buf, xts_k1, k1n); memcpy(k2buf, xts_k2, k2n); }
	const uint8_t *src = dec ? xref : pool, *expect = dec ? pool : xref;
	size_t o_in, o_out;
	int kp = place == VK_START ? VK_START : VK_END;
	size_t kal = place == VK_MID ? 1 : 1;
	uint8_t *p_k1 = put_in(&s_key, k1buf, k1n, kp, kal, 0, NULL);
	uint8_t *p_k2 = put_in(&s_key2, k2buf, k2n, kp, kal, 0, NULL);
	uint8_t *p_tw = put_in(&s_tw, xts_tw[tw], 16, kp, 1, 0, NULL);
	if (place == VK_MID) { /* arbitrary alignments of keys and tweak */
		p_k1 = put_in(&s_key, k1buf, k1n, VK_MID, 1, 64 + (midoff * 3) % 16, NULL);
		p_k2 = put_in(&s_key2, k2buf, k2n, VK_MID, 1, 64 + (midoff * 5) % 16, NULL);
		p_tw = put_in(&s_tw, xts_tw[tw], 16, VK_MID, 1, 64 + (midoff * 11) % 16, NULL);
	}
	uint8_t *p_in, *p_out;
	if (inplace) { p_out = put_out(SO(len), len, place, 1, 192 + midoff, &o_out, prefill); memcpy(p_out, src, len); p_in = p_out; }
	else { p_in = put_in(SI(len), src, len, place, 1, 320 + midoff, &o_in); p_out = put_out(SO(len), len, place, 1, 192 + (midoff * 7) % 64, &o_out, prefill); }
	vk_call_poison = poison;
	*faulted = 0;
	uint64_t ret = 0;
	vk_alarm(DATA_MAX > (1 << 20) ? 60000 : 5000);
	if (VK_TRY()) { ret = VCALLN(fn, nm, AP(p_k2), AP(p_k1), AP(p_tw), A64(len), AP(p_in), AP(p_out)); VK_END_TRY(); }
	else *faulted = 1;
	vk_alarm(0);
	vk_stat("calls_xts", 1);
	if (*faulted) { fault_report(nm, shape); return; }
	canary_report(nm, "out", SO(len), o_out, len, shape);
	if (len < 16) {
		/* no-op clause: neither buffer touched (input is read-only mapped; output keeps its prefill) */
		int touched = 0;
		for (size_t i = 0; i < len; i++) if (p_out[i] != (inplace ? src[i] : prefill)) touched = 1;
		if (touched) { char key[160]; snprintf(key, sizeof key, "%s:short_touched", nm); vk_violation("C03", key, NULL, "%s modified the output buffer for len %zu < 16", nm, len); }
		if (entry == 1 && (int)ret == 0) { char key[160]; snprintf(key, sizeof key, "%s:short_accepted", nm); vk_violation("C16", key, NULL, "%s returned 0 for len %zu < 16", nm, len); }
	} else {
		if (entry == 1 && (int)ret != 0) { char key[160]; snprintf(key, sizeof key, "%s:valid_refused", nm); vk_violation("C16", key, NULL, "%s returned %d for valid arguments %s", nm, (int)ret, shape); }
		else if (func_check && memcmp(p_out, expect, len)) {
			char key[160]; size_t d = 0; while (d < len && p_out[d] == expect[d]) d++;
			snprintf(key, sizeof key, "%s:mismatch", nm);
			vk_violation(!strcmp(prop, "C16") ? "C16" : "C03", key, NULL, "%s output differs from IEEE 1619 reference (first diff at byte %zu of %zu) %s", nm, d, len, shape);
		}
	}
	if (outcopy) memcpy(outcopy, p_out, len);
	secrets_scan(nm, shape);
	vk_distinct("shape", vk_hash(shape, strlen(shape), vk_hash(nm, strlen(nm), 2)));
}
static void xts_sweep(void)
{
	size_t *lens = malloc(sizeof(size_t) * 6000); int nl = 0;
	size_t maxl = (secrets_mode || pair_mode) ? (vk_thorough ? 1100 : 300) : (DATA_MAX > SMALL_MAX ? 4056 : 1100);   /* thorough functional: every length up to 4 KiB */
	for (size_t l = 0; l <= maxl; l++) lens[nl++] = l;
	for (size_t l = 4096 - 40; l <= 4096 + 40; l++) if (!secrets_mode || l % 16 < 2) lens[nl++] = l;
	if (vk_thorough && !secrets_mode && !pair_mode) { lens[nl++] = 65536; lens[nl++] = 65551; }
	if (DATA_MAX >= ((size_t)1 << 24)) { lens[nl++] = (1 << 20) + 17; lens[nl++] = (1 << 24) - 16; lens[nl++] = (1 << 24) - 1; lens[nl++] = 1 << 24; }   /* up to the documented maximum */
	if (vk_want_trace) { nl = 0; for (unsigned i = 0; i < NTRLENS; i++) lens[nl++] = TRLENS[i]; }
	vk_fill(xts_k1, 32, 0x7751); vk_fill(xts_k2, 32, 0x7752);
	vk_fill(xts_tw[0], 16, 0x77aa); memset(xts_tw[1], 0xff, 16); memset(xts_tw[2], 0, 16); xts_tw[2][15] = 0x80;
	uint8_t *o1 = scratch1, *o2 = scratch2;
	for (int li = 0; li < nl; li++) {
		size_t len = lens[li];
		if (li % vk_nshards != vk_shard) continue;
		if (vk_deadline_hit()) { vk_stat("deadline_skipped_lens", 1); continue; }
		for (int ks = 0; ks < 2; ks++) for (int tw = 0; tw < 3; tw++) {
			if (tw && !vk_thorough && (len % 7) != (size_t)tw) continue;
			if (tw && len > 100000) continue;
			if (tw && vk_want_trace) continue;
			/* tweak 0 is a fresh seeded value per (length, key size): carry patterns of the GF(2^128) doublings
			 * (which select different code in the stealing paths) vary over the sweep */
			if (tw == 0) vk_fill(xts_tw[0], 16, 0x77aa00 + len * 2 + ks);
			xts_ref_get(ks, tw, len);
			if (secrets_mode) {
				sec_reset(); sec_add_key(xts_k1, ks ? 256 : 128); sec_add_key(xts_k2, ks ? 256 : 128);
				ref_aes_key b; uint8_t et[16]; ref_aes_expand(&b, xts_k2, ks ? 256 : 128); ref_aes_enc_block(&b, xts_tw[tw], et); sec_add(et, "enc_tweak", 0);
			}
			for (int f = 0; f < 3; f++) {
				if (!vk_host_can(xts_need[f])) { vk_stat("skipped_family_not_executable_on_host", 1); continue; }
				if (vk_only && !strstr(xts_fams[f], vk_only)) continue;
				for (int dec = 0; dec < 2; dec++) for (int ex = 0; ex < 2; ex++) {
					int fl, fl2;
					if (guard_mode) {
						for (int pl = VK_END; pl <= VK_START; pl++) for (int ip = 0; ip < 2; ip++)
							xts_call(f, ks, dec, ex, tw, len, pl, 0, ip, 0, 0x5a5a5a5a5a5a5a5aULL, NULL, &fl, 0, 0);
					} else if (pair_mode) {
						int ip = len & 1;
						xts_call(f, ks, dec, ex, tw, len, VK_MID, len % 16, ip, 0x00, 0x1111111111111111ULL, o1, &fl, 0, 0);
						xts_call(f, ks, dec, ex, tw, len, VK_MID, len % 16, ip, 0xff, 0xfedcba9876543210ULL, o2, &fl2, 0, 0);
						/* len<16: output keeps its (different) prefill by contract */
						if (!fl && !fl2 && len >= 16 && memcmp(o1, o2, len)) {
							char key[128]; snprintf(key, sizeof key, "xts_%s_%d%s_%s:pair", dec ? "dec" : "enc", ks ? 256 : 128, ex ? "_expanded_key" : "", xts_fams[f]);
							vk_violation("C20", key, NULL, "result depends on hidden inputs: len=%zu", len);
						}
						vk_stat("pairs", 1);
					} else if (secrets_mode) {
						xts_call(f, ks, dec, ex, tw, len, VK_MID, 0, 0, 0, 0x5a5a5a5a5a5a5a5aULL, NULL, &fl, 0, 0);
					} else {
						int noff = vk_want_trace ? 1 : vk_thorough ? 16 : 2;
						if (len > 100000) noff = 2;
						for (int oi = 0; oi < noff; oi++) {
							size_t off = vk_thorough ? (size_t)oi : (oi ? 1 + len % 15 : 0);
							xts_call(f, ks, dec, ex, tw, len, VK_MID, off, (oi + dec) & 1, 0x3c, 0x5a5a5a5a5a5a5a5aULL, o1, &fl, 0, 0);
							if (ex && oi == 0) {
								/* expanded-key entry fed with the library's own schedules must agree */
								xts_call(f, ks, dec, ex, tw, len, VK_MID, off, (oi + dec) & 1, 0x3c, 0x5a5a5a5a5a5a5a5aULL, o2, &fl2, 0, 1);
							}
						}
					}
				}
			}
		}
	}
	free(lens);
}

/* ================= CBC ================= */
static const char *cbc_enc_fams[2] = { "x4", "x8" };
static const char *cbc_dec_fams[3] = { "sse", "avx", "vaes_avx512" };
static const int cbc_dec_need[3] = { VK_F_SSE, VK_F_AVX, VK_F_VAES };
static uint8_t cbc_key[32], cbc_iv[16];
static uint8_t *cref; static struct { size_t len; int ks, valid; } cr;
static void cbc_ref_get(int ks, size_t len)
{
	static const int kb[3] = { 128, 192, 256 };
	if (cr.valid && cr.len == len && cr.ks == ks) return;
	ref_aes_key k; ref_aes_expand(&k, cbc_key, kb[ks]);
	ref_cbc_enc(&k, cbc_iv, pool, cref, len);
	cr.len = len; cr.ks = ks; cr.valid = 1;
	vk_stat("reference_computations", 1);
}
static void cbc_call(int dec, int f, int ks, size_t len, int place, size_t midoff, int inplace, uint8_t prefill, uint64_t poison,
		     uint8_t *outcopy, int *faulted, int entry)
{
	static const int kb[3] = { 128, 192, 256 };
	char nm[96], shape[160];
	int bits = kb[ks], nr = bits / 32 + 6;
	snprintf(nm, sizeof nm, "_aes_cbc_%s_%d_%s", dec ? "dec" : "enc", bits, dec ? cbc_dec_fams[f] : cbc_enc_fams[f]);
	void *fn = vk_sym(nm);
	*faulted = 2;
	if (!fn) { vk_stat("missing_symbol", 1); return; }
	if (entry) {
		/* public (1) or legacy (2) entry point with the dispatch slot re-pointed to this family */
		char sn[96], en[96];
		snprintf(sn, sizeof sn, "_aes_cbc_%s_%d_dispatched", dec ? "dec" : "enc", bits);
		void **slot = vk_sym(sn);
		snprintf(en, sizeof en, "%saes_cbc_%s_%d", entry == 1 ? "isal_" : "", dec ? "dec" : "enc", bits);
		void *efn = vk_sym(en);
		if (!slot || !efn) { vk_stat("missing_symbol", 1); return; }
		*slot = fn;
		snprintf(nm, sizeof nm, "%s[%s]", en, dec ? cbc_dec_fams[f] : cbc_enc_fams[f]);
		fn = efn;
	}
	snprintf(shape, sizeof shape, "len=%zu place=%s off=%zu inplace=%d", len, place == VK_END ? "end" : place == VK_START ? "start" : "mid", midoff, inplace);
	ref_aes_key k; uint8_t sched[15][16];
	ref_aes_expand(&k, cbc_key, bits);
	if (dec) ref_aes_dec_schedule(&k, sched); else memcpy(sched, k.rk, sizeof sched);
	int kp = place == VK_START ? VK_START : VK_END;
	uint8_t *p_keys = put_in(&s_key, sched, 16 * (nr + 1), kp, 16, 0, NULL);
	uint8_t *p_iv = put_in(&s_iv, cbc_iv, 16, kp, 16, 0, NULL);
	const uint8_t *src = dec ? cref : pool, *expect = dec ? pool : cref;
	size_t o_in, o_out; uint8_t *p_in, *p_out;
	if (inplace) { p_out = put_out(SO(len), len, place, 1, 192 + midoff, &o_out, prefill); memcpy(p_out, src, len); p_in = p_out; }
	else { p_in = put_in(SI(len), src, len, place, 1, 320 + midoff, &o_in); p_out = put_out(SO(len), len, place, 1, 192 + (midoff * 7) % 64, &o_out, prefill); }
	vk_call_poison = poison;
	*faulted = 0;
	vk_alarm(DATA_MAX > (1 << 20) ? 60000 : 5000);
	if (VK_TRY()) { VCALLN(fn, nm, AP(p_in), AP(p_iv), AP(p_keys), AP(p_out), A64(len)); VK_END_TRY(); }
	else *faulted = 1;
	vk_alarm(0);
	vk_stat("calls_cbc", 1);
	if (*faulted) { fault_report(nm, shape); return; }
	canary_report(nm, "out", SO(len), o_out, len, shape);
	if (func_check && memcmp(p_out, expect, len)) {
		char key[160]; size_t d = 0; while (d < len && p_out[d] == expect[d]) d++;
		snprintf(key, sizeof key, "%s:mismatch", nm);
		vk_violation("C04", key, NULL, "%s output differs from SP 800-38A reference (first diff at byte %zu of %zu) %s", nm, d, len, shape);
	}
	if (outcopy) memcpy(outcopy, p_out, len);
	secrets_scan(nm, shape);
	vk_distinct("shape", vk_hash(shape, strlen(shape), vk_hash(nm, strlen(nm), 3)));
}
static void cbc_sweep(void)
{
	size_t lens[600]; int nl = 0;
	int maxn = (secrets_mode || pair_mode) ? 40 : (vk_thorough && !guard_mode) ? 300 : 70;
	/* zero length is in C08's domain (a multiple of 16 the API accepts) */
	if (guard_mode) lens[nl++] = 0;
	for (int n = 1; n <= maxn; n++) lens[nl++] = 16 * n;
	lens[nl++] = 16 * 255; lens[nl++] = 16 * 256; lens[nl++] = 16 * 257;
	if (vk_thorough) lens[nl++] = 16 * 4096;
	if (DATA_MAX > (1 << 20)) lens[nl++] = 1 << 20;
	if (vk_want_trace) { nl = 0; lens[nl++] = 16; lens[nl++] = 48; lens[nl++] = 16 * 9; lens[nl++] = 16 * 33; }
	vk_fill(cbc_key, 32, 0xcbc1); vk_fill(cbc_iv, 16, 0xcbc2);
	uint8_t *o1 = scratch1, *o2 = scratch2;
	int item = 0;
	for (int li = 0; li < nl; li++) for (int ks = 0; ks < 3; ks++) {
		size_t len = lens[li];
		if (item++ % vk_nshards != vk_shard) continue;
		cbc_ref_get(ks, len);
		if (secrets_mode) { static const int kb[3] = { 128, 192, 256 }; sec_reset(); sec_add_key(cbc_key, kb[ks]); if (ks == 1) sec_add(cbc_key + 8, "rawkey", 2); }
		for (int dec = 0; dec < 2; dec++) for (int f = 0; f < (dec ? 3 : 2); f++) {
			int fl, fl2;
			if (dec && !vk_host_can(cbc_dec_need[f])) { vk_stat("skipped_family_not_executable_on_host", 1); continue; }
			if (!dec && !vk_host_can(VK_F_SSE)) continue;
			if (guard_mode) {
				/* the zero-length request is part of the public operation's domain: it is made through the
				 * public and legacy entry points bound to this family (family symbols are internal) */
				for (int pl = VK_END; pl <= VK_START; pl++) for (int ip = 0; ip < 2; ip++) {
					if (len == 0) { cbc_call(dec, f, ks, len, pl, 0, ip, 0, 0x5a5a5a5a5a5a5a5aULL, NULL, &fl, 1); cbc_call(dec, f, ks, len, pl, 0, ip, 0, 0x5a5a5a5a5a5a5a5aULL, NULL, &fl, 2); }
					else cbc_call(dec, f, ks, len, pl, 0, ip, 0, 0x5a5a5a5a5a5a5a5aULL, NULL, &fl, 0);
				}
			} else if (pair_mode) {
				cbc_call(dec, f, ks, len, VK_MID, len % 13, li & 1, 0x00, 0x1111111111111111ULL, o1, &fl, 0);
				cbc_call(dec, f, ks, len, VK_MID, len % 13, li & 1, 0xff, 0xfedcba9876543210ULL, o2, &fl2, 0);
				if (!fl && !fl2 && memcmp(o1, o2, len)) { char key[128]; snprintf(key, sizeof key, "cbc_%s_%d_%d:pair", dec ? "dec" : "enc", ks, f); vk_violation("C20", key, NULL, "result depends on hidden inputs: len=%zu", len); }
				vk_stat("pairs", 1);
			} else if (secrets_mode) {
				cbc_call(dec, f, ks, len, VK_MID, 0, 0, 0, 0x5a5a5a5a5a5a5a5aULL, NULL, &fl, 0);
			} else {
				int noff = vk_want_trace ? 1 : vk_thorough ? 16 : 3;
				for (int oi = 0; oi < noff; oi++) for (int ip = 0; ip < 2; ip++)
					cbc_call(dec, f, ks, len, VK_MID, vk_thorough ? (size_t)oi : (size_t)(oi * 7) % 16, ip, 0x3c, 0x5a5a5a5a5a5a5a5aULL, NULL, &fl, 0);
			}
		}
	}
}

/* ================= key expansion ================= */
static void keyexp_sweep(void)
{
	static const int kb[3] = { 128, 192, 256 };
	static const char *fams[2] = { "sse", "avx" };
	int nkeys = vk_want_trace ? 2 : vk_thorough ? 6000 : 120;
	if (secrets_mode || pair_mode) nkeys = 24;
	int item = 0;
	for (int ki = 0; ki < nkeys; ki++) for (int ks = 0; ks < 3; ks++) for (int f = 0; f < 2; f++) for (int enc_only = 0; enc_only < 2; enc_only++) {
		if (enc_only && ks != 0) continue;
		if (item++ % vk_nshards != vk_shard) continue;
		if (!vk_host_can(f ? VK_F_AVX : VK_F_SSE)) continue;
		char nm[64], shape[96];
		snprintf(nm, sizeof nm, enc_only ? "_aes_keyexp_%d_enc_%s" : "_aes_keyexp_%d_%s", kb[ks], fams[f]);
		void *fn = vk_sym(nm);
		if (!fn) { vk_stat("missing_symbol", 1); continue; }
		uint8_t key[32];
		if (ki == 0) memset(key, 0, 32); else if (ki == 1) memset(key, 0xff, 32);
		else if (ki == 2) for (int i = 0; i < 32; i++) key[i] = i;
		else vk_fill(key, 32, 0x4be0000 + ki);
		ref_aes_key k; uint8_t dk[15][16];
		ref_aes_expand(&k, key, kb[ks]); ref_aes_dec_schedule(&k, dk);
		size_t n = 16 * (k.nr + 1), o_e = 0, o_d = 0;
		int npl = guard_mode ? 2 : 1;
		for (int pl = 0; pl < npl; pl++) for (int rep = 0; rep < (pair_mode ? 2 : 1); rep++) {
			int place = guard_mode ? pl : VK_MID;
			size_t mo = guard_mode ? 0 : (size_t)(ki % 16);
			snprintf(shape, sizeof shape, "key#%d place=%d off=%zu", ki, place, mo);
			uint8_t *p_key = put_in(&s_key, key, kb[ks] / 8, place == VK_MID ? VK_MID : place, 1, 64 + mo, NULL);
			uint8_t *p_e = put_out(&s_out, n, place, 1, 128 + (place == VK_MID ? (mo * 5) % 16 : 0), &o_e, rep ? 0xff : 0);
			uint8_t *p_d = put_out(&s_tag, enc_only ? 0 : n, place, 1, 128 + (place == VK_MID ? (mo * 3) % 16 : 0), &o_d, rep ? 0xff : 0);
			if (secrets_mode) { sec_reset(); sec_add_key(key, kb[ks]); }
			vk_call_poison = rep ? 0xfedcba9876543210ULL : 0x5a5a5a5a5a5a5a5aULL;
			int faulted = 0;
			vk_alarm(DATA_MAX > (1 << 20) ? 60000 : 5000);
			if (VK_TRY()) { if (enc_only) VCALLN(fn, nm, AP(p_key), AP(p_e)); else VCALLN(fn, nm, AP(p_key), AP(p_e), AP(p_d)); VK_END_TRY(); }
			else faulted = 1;
			vk_alarm(0);
			vk_stat("calls_keyexp", 1);
			if (faulted) { fault_report(nm, shape); continue; }
			canary_report(nm, "exp_key_enc", &s_out, o_e, n, shape);
			if (!enc_only) canary_report(nm, "exp_key_dec", &s_tag, o_d, n, shape); else canary_report(nm, "unused", &s_tag, o_d, 0, shape);
			if (func_check) {
				for (int r = 0; r <= k.nr; r++) {
					if (memcmp(p_e + 16 * r, k.rk[r], 16)) { char key2[128]; snprintf(key2, sizeof key2, "%s:enc_sched", nm); vk_violation("C04", key2, NULL, "%s encryption round key %d differs from FIPS-197 (%s)", nm, r, shape); break; }
					if (!enc_only && memcmp(p_d + 16 * r, dk[r], 16)) { char key2[128]; snprintf(key2, sizeof key2, "%s:dec_sched", nm); vk_violation("C04", key2, NULL, "%s decryption round key %d differs from reversed/InvMixColumns schedule (%s)", nm, r, shape); break; }
				}
			}
			secrets_scan(nm, shape);
			vk_distinct("shape", vk_hash(shape, strlen(shape), vk_hash(nm, strlen(nm), 4)));
		}
	}
}

int main(int argc, char **argv)
{
	const char *v;
	vk_init(argc, argv);
	if (vk_opt("prop", &v)) prop = v;
	if (vk_opt("what", &v)) what = v;
	guard_mode = !strcmp(prop, "C08");
	secrets_mode = !strcmp(prop, "C14");
	pair_mode = !strcmp(prop, "C20");
	if (vk_want_trace) vk_trace_enable();
	if (secrets_mode) vk_call_mode = VC_POISON_REGS | VC_STACK | VC_CAPVEC;
	else if (pair_mode) vk_call_mode = VC_POISON_REGS | VC_STACK;
	else if (!strcmp(prop, "C19")) vk_call_mode = VC_POISON_REGS;
	if (ref_run_kats(0)) { fprintf(stderr, "reference KATs failed\n"); return 2; }
	if (vk_want_wtrap) vk_wtrap_enable();
	if (vk_thorough && !guard_mode && !secrets_mode && !pair_mode && !vk_want_trace && strcmp(prop, "C19")) DATA_MAX = ((size_t)1 << 24) + 4096;
	vk_slot_init(&s_in, "in", SMALL_MAX + 8192, 1);
	vk_slot_init(&s_out, "out", SMALL_MAX + 8192, 0);
	/* the (rare) long lengths get slots of their own: canaries are refilled over the whole slot for every call */
	if (DATA_MAX > SMALL_MAX) { vk_slot_init(&b_in, "in_big", DATA_MAX + 8192, 1); vk_slot_init(&b_out, "out_big", DATA_MAX + 8192, 0); }
	vk_slot_init(&s_aad, "aad", 8192, 1);
	vk_slot_init(&s_iv, "iv", 4096, 1);
	vk_slot_init(&s_tag, "tag", 4096, 0);
	vk_slot_init(&s_key, "key", 8192, 1);
	vk_slot_init(&s_key2, "key2", 8192, 1);
	vk_slot_init(&s_ctx, "ctx", 8192, 0);
	vk_slot_init(&s_tw, "tweak", 4096, 1);
	pool = malloc(DATA_MAX); vk_fill(pool, DATA_MAX, 0xda7a);
	gref_ct = malloc(DATA_MAX); xref = malloc(DATA_MAX); cref = malloc(DATA_MAX);
	scratch1 = malloc(DATA_MAX); scratch2 = malloc(DATA_MAX); scratch3 = malloc(DATA_MAX);
	if (want("gcm")) gcm_sweep();
	if (want("xts")) xts_sweep();
	if (want("cbc")) cbc_sweep();
	if (want("keyexp")) keyexp_sweep();
	vk_sample("gcm: _aes_gcm_enc_128_sse(len=37,aad=20,tag=12,mid,off=5,inplace) vs SP 800-38D reference; xts: _XTS_AES_256_dec_expanded_key_vaes(len=1099,tweak=all-ones); cbc: _aes_cbc_dec_192_avx(len=1120)");
	vk_finish();
	return 0;
}
