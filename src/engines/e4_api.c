/* E4 - API-state and argument-lattice explorer (DESIGN.md section 4 E4, 5.13, 5.16).
 *  mode=lattice (variant V, C16): for each of the 72 isal_ entry points all 2^k NULL-subsets of its pointer
 *      arguments x boundary values of each scalar; expectation from a transcription of the documented domain
 *      (3-valued); when the call must fail every non-NULL pointer is aimed at PROT_NONE memory.
 *      Plus legacy/isal_ twins on identical valid inputs.
 *  mode=fips (variant VF, C13): 3-state reference machine of the self-test latch x scripted self-test outcomes x
 *      every entry point with valid arguments, one and two steps deep. */
#define _GNU_SOURCE
#include "vkit.h"
#include "ref.h"
#include <stdlib.h>
#include <sys/mman.h>
#include <aes_gcm.h>
#include <aes_cbc.h>
#include <aes_xts.h>
#include <aes_keyexp.h>
#include <sha1_mb.h>
#include <sha256_mb.h>
#include <sha512_mb.h>
#include <md5_mb.h>
#include <sm3_mb.h>
#include <mh_sha1.h>
#include <mh_sha256.h>
#include <mh_sha1_murmur3_x64_128.h>
#include <rolling_hashx.h>
#include <isal_crypto_api.h>
#ifndef VERIF_VARIANT_P
#include "vsched.h"
#endif

static const char *prop = "C16";
static const char *mode = "lattice";

/* ---------- catalog ---------- */
enum cls { C_CBC, C_GCM1, C_GCMINIT, C_GCMUPD, C_GCMFIN, C_GCMPRE, C_KEYEXP, C_XTS, C_SELFTEST, C_HINIT, C_HSUBMIT, C_HFLUSH,
	   C_MHINIT, C_MHUPD, C_MHFIN, C_RINIT, C_RRESET, C_RRUN, C_MASKGEN };
struct ent { char name[64]; char legacy[64]; enum cls cls; int dec, bits, nt, alg, exp; int approved; void *fn, *lfn; };
static struct ent E[80]; static int NE;
static const char *halg[5] = { "sha1", "sha256", "sha512", "md5", "sm3" };
static const size_t hctx[5] = { sizeof(ISAL_SHA1_HASH_CTX), sizeof(ISAL_SHA256_HASH_CTX), sizeof(ISAL_SHA512_HASH_CTX), sizeof(ISAL_MD5_HASH_CTX), sizeof(ISAL_SM3_HASH_CTX) };
static const size_t hmgr[5] = { sizeof(ISAL_SHA1_HASH_CTX_MGR), sizeof(ISAL_SHA256_HASH_CTX_MGR), sizeof(ISAL_SHA512_HASH_CTX_MGR), sizeof(ISAL_MD5_HASH_CTX_MGR), sizeof(ISAL_SM3_HASH_CTX_MGR) };
static const size_t hoff_status[5] = { offsetof(ISAL_SHA1_HASH_CTX, status), offsetof(ISAL_SHA256_HASH_CTX, status), offsetof(ISAL_SHA512_HASH_CTX, status), offsetof(ISAL_MD5_HASH_CTX, status), offsetof(ISAL_SM3_HASH_CTX, status) };
static const size_t hoff_error[5] = { offsetof(ISAL_SHA1_HASH_CTX, error), offsetof(ISAL_SHA256_HASH_CTX, error), offsetof(ISAL_SHA512_HASH_CTX, error), offsetof(ISAL_MD5_HASH_CTX, error), offsetof(ISAL_SM3_HASH_CTX, error) };
static const size_t hoff_dig[5] = { offsetof(ISAL_SHA1_HASH_CTX, job.result_digest), offsetof(ISAL_SHA256_HASH_CTX, job.result_digest), offsetof(ISAL_SHA512_HASH_CTX, job.result_digest), offsetof(ISAL_MD5_HASH_CTX, job.result_digest), offsetof(ISAL_SM3_HASH_CTX, job.result_digest) };
static const size_t hdlen[5] = { 20, 32, 64, 16, 32 };
static const char *mhk[3] = { "mh_sha1", "mh_sha256", "mh_sha1_murmur3_x64_128" };
static const size_t mhsz[3] = { sizeof(struct isal_mh_sha1_ctx), sizeof(struct isal_mh_sha256_ctx), sizeof(struct isal_mh_sha1_murmur3_x64_128_ctx) };

static void add(const char *name, const char *legacy, enum cls c, int dec, int bits, int nt, int alg, int exp, int approved)
{
	struct ent *e = &E[NE];
	snprintf(e->name, sizeof e->name, "%s", name); snprintf(e->legacy, sizeof e->legacy, "%s", legacy ? legacy : "");
	e->cls = c; e->dec = dec; e->bits = bits; e->nt = nt; e->alg = alg; e->exp = exp; e->approved = approved;
	e->fn = vk_sym(name); e->lfn = legacy ? vk_sym(legacy) : NULL;
	if (!e->fn) { vk_note("catalog entry %s not present in this build", name); return; }
	NE++;
}
static void build_catalog(void)
{
	char n[64], l[64];
	static const int kb[3] = { 128, 192, 256 };
	for (int d = 0; d < 2; d++) for (int k = 0; k < 3; k++) { snprintf(n, 64, "isal_aes_cbc_%s_%d", d ? "dec" : "enc", kb[k]); snprintf(l, 64, "aes_cbc_%s_%d", d ? "dec" : "enc", kb[k]); add(n, l, C_CBC, d, kb[k], 0, 0, 0, 1); }
	for (int nt = 0; nt < 2; nt++) for (int d = 0; d < 2; d++) for (int k = 0; k < 3; k += 2) {
		snprintf(n, 64, "isal_aes_gcm_%s_%d%s", d ? "dec" : "enc", kb[k], nt ? "_nt" : ""); snprintf(l, 64, "aes_gcm_%s_%d%s", d ? "dec" : "enc", kb[k], nt ? "_nt" : ""); add(n, l, C_GCM1, d, kb[k], nt, 0, 0, 1);
		snprintf(n, 64, "isal_aes_gcm_%s_%d_update%s", d ? "dec" : "enc", kb[k], nt ? "_nt" : ""); snprintf(l, 64, "aes_gcm_%s_%d_update%s", d ? "dec" : "enc", kb[k], nt ? "_nt" : ""); add(n, l, C_GCMUPD, d, kb[k], nt, 0, 0, 1);
		if (!nt) { snprintf(n, 64, "isal_aes_gcm_%s_%d_finalize", d ? "dec" : "enc", kb[k]); snprintf(l, 64, "aes_gcm_%s_%d_finalize", d ? "dec" : "enc", kb[k]); add(n, l, C_GCMFIN, d, kb[k], 0, 0, 0, 1); }
	}
	for (int k = 0; k < 3; k += 2) { snprintf(n, 64, "isal_aes_gcm_init_%d", kb[k]); snprintf(l, 64, "aes_gcm_init_%d", kb[k]); add(n, l, C_GCMINIT, 0, kb[k], 0, 0, 0, 1);
		snprintf(n, 64, "isal_aes_gcm_pre_%d", kb[k]); snprintf(l, 64, "aes_gcm_pre_%d", kb[k]); add(n, l, C_GCMPRE, 0, kb[k], 0, 0, 0, 1); }
	for (int k = 0; k < 3; k++) { snprintf(n, 64, "isal_aes_keyexp_%d", kb[k]); snprintf(l, 64, "aes_keyexp_%d", kb[k]); add(n, l, C_KEYEXP, 0, kb[k], 0, 0, 0, 1); }
	for (int k = 0; k < 3; k += 2) for (int d = 0; d < 2; d++) for (int x = 0; x < 2; x++) {
		snprintf(n, 64, "isal_aes_xts_%s_%d%s", d ? "dec" : "enc", kb[k], x ? "_expanded_key" : ""); snprintf(l, 64, "XTS_AES_%d_%s%s", kb[k], d ? "dec" : "enc", x ? "_expanded_key" : ""); add(n, l, C_XTS, d, kb[k], 0, 0, x, 1); }
	add("isal_self_tests", NULL, C_SELFTEST, 0, 0, 0, 0, 0, 1);
	for (int a = 0; a < 5; a++) {
		snprintf(n, 64, "isal_%s_ctx_mgr_init", halg[a]); snprintf(l, 64, "%s_ctx_mgr_init", halg[a]); add(n, l, C_HINIT, 0, 0, 0, a, 0, a < 3);
		snprintf(n, 64, "isal_%s_ctx_mgr_submit", halg[a]); snprintf(l, 64, "%s_ctx_mgr_submit", halg[a]); add(n, l, C_HSUBMIT, 0, 0, 0, a, 0, a < 3);
		snprintf(n, 64, "isal_%s_ctx_mgr_flush", halg[a]); snprintf(l, 64, "%s_ctx_mgr_flush", halg[a]); add(n, l, C_HFLUSH, 0, 0, 0, a, 0, a < 3);
	}
	for (int k = 0; k < 3; k++) {
		snprintf(n, 64, "isal_%s_init", mhk[k]); snprintf(l, 64, "%s_init", mhk[k]); add(n, l, C_MHINIT, 0, 0, 0, k, 0, 0);
		snprintf(n, 64, "isal_%s_update", mhk[k]); snprintf(l, 64, "%s_update", mhk[k]); add(n, l, C_MHUPD, 0, 0, 0, k, 0, 0);
		snprintf(n, 64, "isal_%s_finalize", mhk[k]); snprintf(l, 64, "%s_finalize", mhk[k]); add(n, l, C_MHFIN, 0, 0, 0, k, 0, 0);
	}
	add("isal_rolling_hash2_init", "rolling_hash2_init", C_RINIT, 0, 0, 0, 0, 0, 0);
	add("isal_rolling_hash2_reset", "rolling_hash2_reset", C_RRESET, 0, 0, 0, 0, 0, 0);
	add("isal_rolling_hash2_run", "rolling_hash2_run", C_RRUN, 0, 0, 0, 0, 0, 0);
	add("isal_rolling_hashx_mask_gen", "rolling_hashx_mask_gen", C_MASKGEN, 0, 0, 0, 0, 0, 0);
}

/* ---------- objects ---------- */
#define NOBJ 10
static vk_slot soset[4][NOBJ];        /* real objects, one slot per argument position, one set per thread */
static vk_slot *so = soset[0];
static uint8_t *poison[NOBJ];       /* PROT_NONE targets */
static uint8_t pool[1 << 16];
static uint8_t rawkey[64];
static struct isal_gcm_key_data kd128, kd256;

/* call description */
enum { V_OK, V_BAD, V_UNSPEC };
struct sval { uint64_t v; int validity; };
struct spec {
	int n; uint8_t isptr[12]; int8_t req_if[12];  /* pointer: -1 always required, k>=0 required iff scalar arg k != 0 */
	uint8_t is32[12];
	uint64_t valid[12];      /* valid value (pointer into slot or scalar) */
	size_t objsize[12]; uint8_t is_out[12];
	int nsv[12]; struct sval sv[12][96];
};
static struct spec S;
static const struct ent *CUR;
static const char *cur_family = "";

static void *obj(int i, size_t n, size_t align) { size_t off = vk_place(&so[i], n, VK_END, align, 0); S.objsize[i] = n; return so[i].rw + off; }
static void ptr(int i, void *p, int req_if, int is_out) { S.isptr[i] = 1; S.valid[i] = (uint64_t)(uintptr_t)p; S.req_if[i] = req_if; S.is_out[i] = is_out; S.nsv[i] = 0; if (i >= S.n) S.n = i + 1; }
static void scal(int i, uint64_t v, int is32) { S.isptr[i] = 0; S.valid[i] = v; S.is32[i] = is32; S.nsv[i] = 0; if (i >= S.n) S.n = i + 1; }
static void alt(int i, uint64_t v, int validity) { for (int k = 0; k < S.nsv[i]; k++) if (S.sv[i][k].v == v) return; if (S.nsv[i] < 96) S.sv[i][S.nsv[i]++] = (struct sval){ v, validity }; }
/* small scalar domains are enumerated, not sampled: every value of [lo,hi] with its validity from the documented domain */
#define ALT_RANGE(i, lo, hi, expr_valid) do { for (uint64_t x_ = (lo); x_ <= (hi); x_++) alt((i), x_, (expr_valid) ? V_OK : V_BAD); } while (0)

/* prepare state needed by the call under test, using valid public calls (ABI checks off, results unchecked here) */
static void *gcm_kd(int bits) { return bits == 128 ? &kd128 : &kd256; }
static void prep_state(const struct ent *e, const uint64_t *a)
{
	int save = vk_abi_enabled; vk_abi_enabled = 0;
	char n[64];
	switch (e->cls) {
	case C_GCMUPD: case C_GCMFIN: {
		snprintf(n, 64, "_aes_gcm_init_%d", e->bits);
		if (a[0] && a[1]) VCALLN(vk_sym(n), n, A64(a[0]), A64(a[1]), AP(pool + 100), AP(pool + 200), A64(20));
		break; }
	case C_HSUBMIT: case C_HFLUSH: {
		snprintf(n, 64, "_%s_ctx_mgr_init", halg[e->alg]);
		if (a[0]) VCALLN(vk_sym(n), n, A64(a[0]));
		if (e->cls == C_HSUBMIT && a[1]) {
			uint8_t *c = (uint8_t *)(uintptr_t)a[1];
			*(uint32_t *)(c + hoff_status[e->alg]) = ISAL_HASH_CTX_STS_COMPLETE; *(int32_t *)(c + hoff_error[e->alg]) = 0;
			int flags = (int)a[5];
			if ((flags == ISAL_HASH_UPDATE || flags == ISAL_HASH_LAST) && a[0]) {
				/* needs an idle mid-stream context */
				snprintf(n, 64, "_%s_ctx_mgr_submit", halg[e->alg]);
				void *r = (void *)VCALLN(vk_sym(n), n, A64(a[0]), A64(a[1]), AP(pool), A32(70), A32(ISAL_HASH_FIRST));
				snprintf(n, 64, "_%s_ctx_mgr_flush", halg[e->alg]);
				for (int g = 0; !r && g < 4; g++) r = (void *)VCALLN(vk_sym(n), n, A64(a[0]));
			}
		}
		break; }
	case C_MHUPD: case C_MHFIN: {
		snprintf(n, 64, "_%s_init", mhk[e->alg]);
		if (a[0]) { if (e->alg == 2) VCALLN(vk_sym(n), n, A64(a[0]), A64(7)); else VCALLN(vk_sym(n), n, A64(a[0])); }
		if (e->cls == C_MHFIN && a[0]) { snprintf(n, 64, "_%s_update", mhk[e->alg]); VCALLN(vk_sym(n), n, A64(a[0]), AP(pool), A32(1500)); }
		break; }
	case C_RRESET: case C_RRUN:
		if (a[0]) { VCALLN(vk_sym("_rolling_hash2_init"), "_rolling_hash2_init", A64(a[0]), A32(16)); if (e->cls == C_RRUN) VCALLN(vk_sym("_rolling_hash2_reset"), "_rolling_hash2_reset", A64(a[0]), AP(pool)); }
		break;
	default: break;
	}
	vk_abi_enabled = save;
}

static void build_spec(const struct ent *e)
{
	memset(&S, 0, sizeof S);
	CUR = e;
	for (int i = 0; i < NOBJ; i++) vk_canary_fill(&so[i]);
	switch (e->cls) {
	case C_CBC: {
		int nr = e->bits / 32 + 6; ref_aes_key k; uint8_t sched[15][16];
		ref_aes_expand(&k, rawkey, e->bits); if (e->dec) ref_aes_dec_schedule(&k, sched); else memcpy(sched, k.rk, sizeof sched);
		uint8_t *in = obj(0, 64, 1), *iv = obj(1, 16, 16), *keys = obj(2, 16 * (nr + 1), 16), *out = obj(3, 64, 1);
		memcpy(in, pool, 64); memcpy(iv, pool + 64, 16); memcpy(keys, sched, 16 * (nr + 1));
		ptr(0, in, 4, 0); ptr(1, iv, -1, 0); ptr(2, keys, -1, 0); ptr(3, out, 4, 1); scal(4, 64, 0);
		alt(4, 16, V_OK); alt(4, 0, V_UNSPEC); ALT_RANGE(4, 1, 70, x_ % 16 == 0);
		break; }
	case C_GCM1: {
		size_t al = e->nt ? 64 : 1;
		uint8_t *key = obj(0, sizeof(struct isal_gcm_key_data), 16), *ctx = obj(1, sizeof(struct isal_gcm_context_data), 16), *out = obj(2, 128, al), *in = obj(3, 128, al), *iv = obj(5, 12, 1), *aad = obj(6, 20, 1), *tag = obj(8, 16, 1);
		memcpy(key, gcm_kd(e->bits), sizeof(struct isal_gcm_key_data)); memcpy(in, pool, 128); memcpy(iv, pool + 300, 12); memcpy(aad, pool + 400, 20);
		if (e->nt) { out = so[2].rw + so[2].size - 128; in = so[3].rw + so[3].size - 128; memcpy(in, pool, 128); }
		ptr(0, key, -1, 0); ptr(1, ctx, -1, 1); ptr(2, out, 4, 1); ptr(3, in, 4, 0); scal(4, 128, 0); ptr(5, iv, -1, 0); ptr(6, aad, 7, 0); scal(7, 20, 0); ptr(8, tag, -1, 1); scal(9, 16, 0);
		alt(4, 0, V_OK); alt(4, 64, V_OK); if (!e->nt) { alt(4, 1, V_OK); alt(4, 17, V_OK); } alt(4, ISAL_GCM_MAX_LEN + 1, V_BAD);
		alt(7, 0, V_OK); alt(7, 1, V_OK);
		/* header: "Valid values are 16 (most likely), 12 or 8" */ ALT_RANGE(9, 0, 40, x_ == 8 || x_ == 12 || x_ == 16); alt(9, (1ull << 32) + 16, V_BAD); alt(9, ~0ull, V_BAD);
		break; }
	case C_GCMINIT: {
		uint8_t *key = obj(0, sizeof(struct isal_gcm_key_data), 16), *ctx = obj(1, sizeof(struct isal_gcm_context_data), 16), *iv = obj(2, 12, 1), *aad = obj(3, 20, 1);
		memcpy(key, gcm_kd(e->bits), sizeof(struct isal_gcm_key_data)); memcpy(iv, pool + 300, 12); memcpy(aad, pool + 400, 20);
		ptr(0, key, -1, 0); ptr(1, ctx, -1, 1); ptr(2, iv, -1, 0); ptr(3, aad, 4, 0); scal(4, 20, 0); alt(4, 0, V_OK); alt(4, 1, V_OK);
		break; }
	case C_GCMUPD: {
		uint8_t *key = obj(0, sizeof(struct isal_gcm_key_data), 16), *ctx = obj(1, sizeof(struct isal_gcm_context_data), 16);
		uint8_t *out = so[2].rw + so[2].size - 128, *in = so[3].rw + so[3].size - 128; S.objsize[2] = S.objsize[3] = 128;
		memcpy(key, gcm_kd(e->bits), sizeof(struct isal_gcm_key_data)); memcpy(in, pool, 128);
		ptr(0, key, -1, 0); ptr(1, ctx, -1, 1); ptr(2, out, 4, 1); ptr(3, in, 4, 0); scal(4, 128, 0);
		alt(4, 0, V_OK); alt(4, 64, V_OK); if (!e->nt) { alt(4, 1, V_OK); alt(4, 17, V_OK); } alt(4, ISAL_GCM_MAX_LEN + 1, V_BAD);
		break; }
	case C_GCMFIN: {
		uint8_t *key = obj(0, sizeof(struct isal_gcm_key_data), 16), *ctx = obj(1, sizeof(struct isal_gcm_context_data), 16), *tag = obj(2, 16, 1);
		memcpy(key, gcm_kd(e->bits), sizeof(struct isal_gcm_key_data));
		ptr(0, key, -1, 0); ptr(1, ctx, -1, 1); ptr(2, tag, -1, 1); scal(3, 16, 0);
		ALT_RANGE(3, 0, 40, x_ == 8 || x_ == 12 || x_ == 16); alt(3, (1ull << 32) + 16, V_BAD); alt(3, ~0ull, V_BAD);
		break; }
	case C_GCMPRE: { uint8_t *key = obj(0, e->bits / 8, 1), *kd = obj(1, sizeof(struct isal_gcm_key_data), 16); memcpy(key, rawkey, e->bits / 8); ptr(0, key, -1, 0); ptr(1, kd, -1, 1); break; }
	case C_KEYEXP: { int nr = e->bits / 32 + 6; uint8_t *key = obj(0, e->bits / 8, 1), *en = obj(1, 16 * (nr + 1), 1), *de = obj(2, 16 * (nr + 1), 1); memcpy(key, rawkey, e->bits / 8); ptr(0, key, -1, 0); ptr(1, en, -1, 1); ptr(2, de, -1, 1); break; }
	case C_XTS: {
		int nr = e->bits / 32 + 6; size_t kn = e->exp ? 16 * (nr + 1) : e->bits / 8;
		uint8_t *k2 = obj(0, kn, 1), *k1 = obj(1, kn, 1), *tw = obj(2, 16, 1), *in = obj(4, 512, 1), *out = obj(5, 512, 1);
		ref_aes_key a, b; ref_aes_expand(&a, rawkey, e->bits); ref_aes_expand(&b, rawkey + 32, e->bits);
		if (e->exp) { memcpy(k2, b.rk, kn); if (e->dec) { uint8_t dk[15][16]; ref_aes_dec_schedule(&a, dk); memcpy(k1, dk, kn); } else memcpy(k1, a.rk, kn); }
		else { memcpy(k1, rawkey, kn); memcpy(k2, rawkey + 32, kn); }
		memcpy(tw, pool + 500, 16); memcpy(in, pool, 512);
		ptr(0, k2, -1, 0); ptr(1, k1, -1, 0); ptr(2, tw, -1, 0); scal(3, 512, 0); ptr(4, in, -1, 0); ptr(5, out, -1, 1);
		ALT_RANGE(3, 0, 33, x_ >= 16); alt(3, (1u << 24) + 1, V_BAD); alt(3, 1ull << 40, V_BAD); alt(3, (1ull << 32) + 16, V_BAD);
		break; }
	case C_SELFTEST: break;
	case C_HINIT: { uint8_t *m = obj(0, hmgr[e->alg], 64); ptr(0, m, -1, 1); break; }
	case C_HSUBMIT: {
		uint8_t *m = obj(0, hmgr[e->alg], 64), *c = obj(1, hctx[e->alg], 64), *co = obj(2, 8, 8), *b = obj(3, 200, 1);
		memcpy(b, pool, 200);
		ptr(0, m, -1, 1); ptr(1, c, -1, 1); ptr(2, co, -1, 1); ptr(3, b, 4, 0); scal(4, 65, 1); scal(5, ISAL_HASH_ENTIRE, 1);
		alt(4, 0, V_OK); alt(4, 1, V_OK); alt(4, 200, V_OK);
		alt(5, ISAL_HASH_FIRST, V_OK); alt(5, ISAL_HASH_UPDATE, V_OK); alt(5, ISAL_HASH_LAST, V_OK); alt(5, 4, V_BAD); alt(5, 0x10, V_BAD); alt(5, 0xff, V_BAD); ALT_RANGE(5, 4, 40, 0); for (int b_ = 6; b_ < 32; b_++) alt(5, (1u << b_) | (b_ & 3), V_BAD);
		break; }
	case C_HFLUSH: { uint8_t *m = obj(0, hmgr[e->alg], 64), *co = obj(1, 8, 8); ptr(0, m, -1, 1); ptr(1, co, -1, 1); break; }
	case C_MHINIT: { uint8_t *c = obj(0, mhsz[e->alg], 16); ptr(0, c, -1, 1); if (e->alg == 2) { scal(1, 0x1234567, 0); alt(1, 0, V_OK); alt(1, ~0ull, V_OK); } break; }
	case C_MHUPD: { uint8_t *c = obj(0, mhsz[e->alg], 16), *b = obj(1, 1100, 1); memcpy(b, pool, 1100); ptr(0, c, -1, 1); ptr(1, b, 2, 0); scal(2, 1100, 1); alt(2, 0, V_OK); alt(2, 1, V_OK); alt(2, 1024, V_OK); break; }
	case C_MHFIN: { uint8_t *c = obj(0, mhsz[e->alg], 16), *d = obj(1, e->alg == 1 ? 32 : 20, 1); ptr(0, c, -1, 1); ptr(1, d, -1, 1); if (e->alg == 2) { uint8_t *d2 = obj(2, 16, 1); ptr(2, d2, -1, 1); } break; }
	case C_RINIT: { uint8_t *s = obj(0, sizeof(struct isal_rh_state2), 8); ptr(0, s, -1, 1); scal(1, 16, 1); alt(1, 0, V_UNSPEC); ALT_RANGE(1, 1, 80, x_ <= 48); alt(1, 0xffffffffu, V_BAD); alt(1, 0x80000000u, V_BAD); alt(1, 0x100 + 16, V_BAD); break; }
	case C_RRESET: { uint8_t *s = obj(0, sizeof(struct isal_rh_state2), 8), *b = obj(1, 16, 1); memcpy(b, pool, 16); ptr(0, s, -1, 1); ptr(1, b, -1, 0); break; }
	case C_RRUN: {
		uint8_t *s = obj(0, sizeof(struct isal_rh_state2), 8), *b = obj(1, 300, 1), *o = obj(5, 4, 4), *m = obj(6, 4, 4); memcpy(b, pool, 300);
		ptr(0, s, -1, 1); ptr(1, b, 2, 0); scal(2, 300, 1); scal(3, 0xf, 1); scal(4, 0, 1); ptr(5, o, -1, 1); ptr(6, m, -1, 1);
		alt(2, 0, V_OK); alt(2, 1, V_OK); alt(2, 15, V_OK);
		break; }
	case C_MASKGEN: { uint8_t *m = obj(2, 4, 4); scal(0, 4096, 1); scal(1, 3, 1); ptr(2, m, -1, 1); alt(0, 0, V_OK); alt(0, 0xffffffffu, V_OK); alt(1, 0, V_OK); alt(1, 31, V_OK); break; }
	}
}

static uint64_t do_call(void *fn, const char *name, const uint64_t *a, int n, int *faulted)
{
	uint64_t r = 0;
	*faulted = 0;
	vk_alarm(4000);
	if (VK_TRY()) {
		switch (n) {
		case 0: r = vk_vcall_n(fn, name, 0); break;
		case 1: r = VCALLN(fn, name, a[0]); break;
		case 2: r = VCALLN(fn, name, a[0], a[1]); break;
		case 3: r = VCALLN(fn, name, a[0], a[1], a[2]); break;
		case 4: r = VCALLN(fn, name, a[0], a[1], a[2], a[3]); break;
		case 5: r = VCALLN(fn, name, a[0], a[1], a[2], a[3], a[4]); break;
		case 6: r = VCALLN(fn, name, a[0], a[1], a[2], a[3], a[4], a[5]); break;
		case 7: r = VCALLN(fn, name, a[0], a[1], a[2], a[3], a[4], a[5], a[6]); break;
		case 10: r = VCALLN(fn, name, a[0], a[1], a[2], a[3], a[4], a[5], a[6], a[7], a[8], a[9]); break;
		default: abort();
		}
		VK_END_TRY();
	} else *faulted = 1;
	vk_alarm(0);
	return r;
}

/* ================= lattice (C16) ================= */
static const char *hfams[] = { "base", "sse", "avx", "avx2", "avx512", "sse_ni", "avx512_ni", "sb_sse4", NULL };
static void lattice_entry_1(const struct ent *e);
static void lattice_entry(const struct ent *e)
{
	if (e->cls != C_HSUBMIT) { lattice_entry_1(e); return; }
	/* rejections by flags / state are implemented per CPU family in the context layer: bind the manager entry points to
	 * each family in turn (the pointer, not the code, is set) */
	char b[96]; void **sl[3]; void *orig[3]; static const char *op[3] = { "init", "submit", "flush" };
	for (int k = 0; k < 3; k++) { snprintf(b, sizeof b, "_%s_ctx_mgr_%s_dispatched", halg[e->alg], op[k]); sl[k] = vk_sym(b); if (!sl[k]) { lattice_entry_1(e); return; } orig[k] = *sl[k]; }
	for (int f = 0; hfams[f]; f++) {
		void *fn[3]; int ok = 1;
		for (int k = 0; k < 3; k++) { snprintf(b, sizeof b, "_%s_ctx_mgr_%s_%s", halg[e->alg], op[k], hfams[f]); fn[k] = vk_sym(b); if (!fn[k]) ok = 0; }
		if (!ok) continue;
		for (int k = 0; k < 3; k++) *sl[k] = fn[k];
		cur_family = hfams[f];
		lattice_entry_1(e);
	}
	cur_family = "";
	for (int k = 0; k < 3; k++) *sl[k] = orig[k];
}
static void lattice_entry_1(const struct ent *e)
{
	build_spec(e);
	if (e->cls == C_SELFTEST) return;
	int np = 0, pidx[12];
	for (int i = 0; i < S.n; i++) if (S.isptr[i]) pidx[np++] = i;
	/* scalar variants: all-valid, then one deviating scalar at a time */
	int nvar = 1; for (int i = 0; i < S.n; i++) nvar += S.nsv[i];
	for (int var = 0; var < nvar; var++) {
		uint64_t sc[12]; int sval = V_OK; int k = var - 1, dev = -1;
		for (int i = 0; i < S.n; i++) sc[i] = S.valid[i];
		if (var > 0) for (int i = 0; i < S.n; i++) { if (k < S.nsv[i]) { sc[i] = S.sv[i][k].v; sval = S.sv[i][k].validity; dev = i; break; } k -= S.nsv[i]; }
		for (unsigned mask = 0; mask < (1u << np); mask++) {
			int expect = sval == V_BAD ? V_BAD : sval;       /* V_OK / V_BAD / V_UNSPEC */
			for (int j = 0; j < np; j++) if (mask & (1u << j)) {
				int i = pidx[j], rq = S.req_if[i];
				if (rq < 0 || sc[rq] != 0) expect = V_BAD;
				else if (expect != V_BAD) expect = V_UNSPEC;
			}
			/* huge lengths cannot be executed on real buffers */
			int huge = 0; for (int i = 0; i < S.n; i++) if (!S.isptr[i] && sc[i] > (1u << 20) && (e->cls == C_GCM1 || e->cls == C_GCMUPD || e->cls == C_XTS || e->cls == C_CBC)) huge = 1;
			if (huge && expect != V_BAD) continue;
			uint64_t a[12]; char shape[200]; int o = 0;
			build_spec(e);         /* fresh objects */
			/* a submit with invalid flags is refused through the context (its error field is the documented channel,
			 * property C11), so the manager/context objects are real there; everything else stays inaccessible */
			int via_ctx = e->cls == C_HSUBMIT && dev == 5 && sval == V_BAD && !(mask & 7);
			for (int i = 0; i < S.n; i++) {
				if (!S.isptr[i]) a[i] = S.is32[i] ? A32(sc[i]) : sc[i];
				else { int j; for (j = 0; j < np && pidx[j] != i; j++) ; a[i] = (mask & (1u << j)) ? 0 : ((expect == V_BAD && !(via_ctx && i < 3)) ? (uint64_t)(uintptr_t)poison[i] : S.valid[i]); }
			}
			static uint8_t img_mgr[1 << 15], img_ctx[2048];
			if (via_ctx) {
				/* an idle mid-stream context: the refusal must leave its hash state alone */
				uint64_t pa[12]; memcpy(pa, a, sizeof pa); pa[5] = ISAL_HASH_UPDATE; prep_state(e, pa);
				memcpy(img_mgr, (void *)(uintptr_t)a[0], hmgr[e->alg]); memcpy(img_ctx, (void *)(uintptr_t)a[1], hctx[e->alg]);
			}
			o = snprintf(shape, sizeof shape, "null_mask=0x%x", mask);
			if (dev >= 0) snprintf(shape + o, sizeof shape - o, " arg%d=%llu", dev, (unsigned long long)sc[dev]);
			if (expect != V_BAD) {
				/* stateful entries need a prepared object; the flags/len under test may need a particular state */
				uint64_t pa[12]; memcpy(pa, a, sizeof pa); for (int i = 0; i < S.n; i++) if (!S.isptr[i]) pa[i] = sc[i];
				prep_state(e, pa);
			}
			int faulted; uint64_t r = do_call(e->fn, e->name, a, S.n, &faulted);
			vk_stat("lattice_cases", 1);
			vk_stat(expect == V_BAD ? "must_fail_cases" : expect == V_OK ? "must_succeed_cases" : "unspecified_cases", 1);
			vk_distinct("case", vk_hash(shape, strlen(shape), vk_hash(e->name, strlen(e->name), 16 + (uint64_t)(uintptr_t)cur_family)));
			char key[200];
			if (faulted) {
				char ad[160], rp[160]; vk_describe_addr(vk_last_fault.addr, ad, sizeof ad); vk_describe_rip(vk_last_fault.rip, rp, sizeof rp);
				int pi = -1; for (int i = 0; i < S.n; i++) if (S.isptr[i] && poison[i] && vk_last_fault.addr >= (uintptr_t)poison[i] && vk_last_fault.addr < (uintptr_t)poison[i] + 65536) pi = i;
				if (expect == V_BAD) { snprintf(key, sizeof key, "%s:deref_before_refusal:arg%d", e->name, pi); vk_violation("C16", key, NULL, "%s dereferenced argument %d (%s) at %s although the call had to be refused (%s)", e->name, pi, vk_last_fault.is_write ? "write" : "read", rp, shape); }
				else { snprintf(key, sizeof key, "%s:fault:%s", e->name, expect == V_OK ? "valid" : "unspecified"); vk_violation("C16", key, NULL, "%s faulted (signal %d at %s, address %s) for %s arguments (%s)", e->name, vk_last_fault.sig, rp, ad, expect == V_OK ? "valid" : "contract-silent", shape); }
				continue;
			}
			int ret = (int)r;
			if (via_ctx) {
				uint8_t *c = (uint8_t *)(uintptr_t)a[1];
				*(int32_t *)(img_ctx + hoff_error[e->alg]) = *(int32_t *)(c + hoff_error[e->alg]);      /* the error field is the documented channel */
				if (memcmp(img_mgr, (void *)(uintptr_t)a[0], hmgr[e->alg]) || memcmp(img_ctx, c, hctx[e->alg])) {
					snprintf(key, sizeof key, "%s[%s]:refused_but_modified", e->name, cur_family);
					vk_violation("C16", key, NULL, "%s (family %s) returned %d for invalid flags but modified the %s of an idle mid-stream job (%s)", e->name, cur_family, ret, memcmp(img_ctx, c, hctx[e->alg]) ? "context" : "manager", shape);
				}
			}
			if (expect == V_BAD && ret == 0) { snprintf(key, sizeof key, "%s:accepted_invalid", e->name); vk_violation("C16", key, NULL, "%s returned 0 for arguments outside the documented domain (%s)", e->name, shape); }
			if (expect == V_OK && ret != 0) { snprintf(key, sizeof key, "%s:refused_valid", e->name); vk_violation("C16", key, NULL, "%s returned %d for arguments inside the documented domain (%s)", e->name, ret, shape); }
			if (expect == V_BAD && ret != 0 && (ret < ISAL_CRYPTO_ERR_NULL_SRC || ret >= ISAL_CRYPTO_ERR_MAX)) { snprintf(key, sizeof key, "%s:undocumented_code", e->name); vk_violation("C16", key, NULL, "%s returned %d, not one of the documented ISAL_CRYPTO_ERR codes (%s)", e->name, ret, shape); }
		}
	}
}

/* the documented maximum XTS data-unit length (2^24) is inside the domain: must be accepted by the isal_ entry and agree with its twin */
static vk_slot big_in, big_out, big_out2; static int big_ready;
static void xts_maxlen_case(const struct ent *e)
{
	if (!big_ready) { vk_slot_init(&big_in, "xts_in_16M", (1u << 24) + 4096, 1); vk_slot_init(&big_out, "xts_out_16M", (1u << 24) + 4096, 0); vk_slot_init(&big_out2, "xts_out2_16M", (1u << 24) + 4096, 0); vk_fill(big_in.rw, 1u << 24, 0xb16); big_ready = 1; }
	build_spec(e);
	for (uint64_t len = (1u << 24) - 1; len <= (1u << 24); len++) {
		uint64_t a[12]; for (int i = 0; i < S.n; i++) a[i] = S.valid[i];
		a[3] = len; a[4] = (uint64_t)(uintptr_t)(big_in.ro + big_in.size - len); a[5] = (uint64_t)(uintptr_t)(big_out.rw + big_out.size - len);
		int faulted; uint64_t r = do_call(e->fn, e->name, a, S.n, &faulted);
		vk_stat("lattice_cases", 1); vk_stat("must_succeed_cases", 1);
		char key[160];
		if (faulted) { snprintf(key, sizeof key, "%s:fault:valid", e->name); vk_violation("C16", key, NULL, "%s faulted for the valid length %llu", e->name, (unsigned long long)len); continue; }
		if ((int)r != 0) { snprintf(key, sizeof key, "%s:refused_valid", e->name); vk_violation("C16", key, NULL, "%s returned %d for len=%llu, which is inside the documented domain [16, 2^24]", e->name, (int)r, (unsigned long long)len); continue; }
		if (e->lfn) {
			a[5] = (uint64_t)(uintptr_t)(big_out2.rw + big_out2.size - len);
			do_call(e->lfn, e->legacy, a, S.n, &faulted);
			vk_stat("twin_pairs", 1);
			if (!faulted && memcmp(big_out.rw + big_out.size - len, big_out2.rw + big_out2.size - len, len)) { snprintf(key, sizeof key, "%s:twin_mismatch:maxlen", e->name); vk_violation("C16", key, NULL, "%s and %s differ for len=%llu", e->name, e->legacy, (unsigned long long)len); }
		}
	}
}

/* ================= legacy twins (C16) ================= */
static void twin_hash(const struct ent *esub)
{
	/* one stream through the isal_ trio and through the legacy trio, same inputs, digests must agree */
	int a = esub->alg; char n[64];
	uint8_t dig[2][64];
	for (int leg = 0; leg < 2; leg++) {
		uint8_t *m = so[0].rw, *c = so[1].rw; void **out = (void **)so[2].rw;
		memset(m, 0, hmgr[a]); memset(c, 0, hctx[a]);
		snprintf(n, 64, leg ? "%s_ctx_mgr_init" : "isal_%s_ctx_mgr_init", halg[a]); VCALLN(vk_sym(n), n, AP(m));
		*(uint32_t *)(c + hoff_status[a]) = ISAL_HASH_CTX_STS_COMPLETE; *(int32_t *)(c + hoff_error[a]) = 0;
		static const struct { int fl; uint32_t len; } seq[3] = { { ISAL_HASH_FIRST, 77 }, { ISAL_HASH_UPDATE, 300 }, { ISAL_HASH_LAST, 5 } };
		size_t pos = 0;
		for (int s = 0; s < 3; s++) {
			void *r;
			snprintf(n, 64, leg ? "%s_ctx_mgr_submit" : "isal_%s_ctx_mgr_submit", halg[a]);
			if (leg) r = (void *)VCALLN(vk_sym(n), n, AP(m), AP(c), AP(pool + pos), A32(seq[s].len), A32(seq[s].fl));
			else { VCALLN(vk_sym(n), n, AP(m), AP(c), AP(out), AP(pool + pos), A32(seq[s].len), A32(seq[s].fl)); r = *out; }
			snprintf(n, 64, leg ? "%s_ctx_mgr_flush" : "isal_%s_ctx_mgr_flush", halg[a]);
			for (int g = 0; !r && g < 4; g++) { if (leg) r = (void *)VCALLN(vk_sym(n), n, AP(m)); else { VCALLN(vk_sym(n), n, AP(m), AP(out)); r = *out; } }
			pos += seq[s].len;
		}
		memcpy(dig[leg], c + hoff_dig[a], hdlen[a]);
	}
	vk_stat("twin_pairs", 1);
	if (memcmp(dig[0], dig[1], hdlen[a])) { char key[96]; snprintf(key, sizeof key, "%s_ctx_mgr:twin_mismatch", halg[a]); vk_violation("C16", key, NULL, "legacy %s_ctx_mgr_* and isal_%s_ctx_mgr_* give different digests for the same stream", halg[a], halg[a]); }
}
static void twins(void)
{
	static const uint64_t lens[] = { 16, 17, 64, 100, 512, 1027 };
	for (int ei = 0; ei < NE; ei++) {
		const struct ent *e = &E[ei];
		if (!e->lfn) continue;
		if (e->cls == C_HSUBMIT) { twin_hash(e); continue; }
		if (e->cls == C_HINIT || e->cls == C_HFLUSH || e->cls == C_SELFTEST) continue;
		for (unsigned li = 0; li < sizeof lens / sizeof *lens; li++) {
			uint8_t img[2][NOBJ][2048]; size_t isz[NOBJ]; uint64_t rets[2];
			int skip = 0;
			for (int leg = 0; leg < 2 && !skip; leg++) {
				build_spec(e);
				uint64_t a[12];
				for (int i = 0; i < S.n; i++) a[i] = S.valid[i];
				/* apply the length where the class has one (keeping documented restrictions) */
				uint64_t L = lens[li];
				switch (e->cls) {
				case C_CBC: a[4] = 64; if (li) skip = 1; break;
				case C_GCM1: a[4] = e->nt ? 128 : (L > 128 ? 128 : L); break;
				case C_GCMUPD: a[4] = e->nt ? 64 : (L > 128 ? 128 : L); break;
				case C_XTS: a[3] = L > 512 ? 512 : L; break;
				case C_MHUPD: a[2] = L; break;
				case C_RRUN: a[2] = L > 300 ? 300 : L; break;
				default: if (li) skip = 1; break;
				}
				if (skip) break;
				prep_state(e, a);
				for (int i = 0; i < S.n; i++) if (!S.isptr[i] && S.is32[i]) a[i] = A32(a[i]);
				int faulted;
				uint64_t r = do_call(leg ? e->lfn : e->fn, leg ? e->legacy : e->name, a, (e->cls == C_RRUN && leg) ? 6 : (e->cls == C_MASKGEN && leg) ? 2 : S.n, &faulted);
				rets[leg] = r;
				if (faulted) { char key[128]; snprintf(key, sizeof key, "%s:twin_fault", leg ? e->legacy : e->name); vk_violation("C16", key, NULL, "%s faulted on valid arguments", leg ? e->legacy : e->name); skip = 1; break; }
				for (int i = 0; i < S.n; i++) { isz[i] = S.isptr[i] && S.is_out[i] ? (S.objsize[i] > 2048 ? 2048 : S.objsize[i]) : 0; if (isz[i]) memcpy(img[leg][i], (void *)(uintptr_t)S.valid[i], isz[i]); }
				if (e->cls == C_RRUN && leg) { /* legacy returns the match code and has no match pointer */ *(int *)img[1][6] = (int)r; isz[6] = 4; }
				if (e->cls == C_MASKGEN && leg) { /* legacy takes (long mean, int shift) and returns the mask */ *(uint32_t *)img[1][2] = (uint32_t)r; isz[2] = 4; }
			}
			if (skip) continue;
			vk_stat("twin_pairs", 1);
			for (int i = 0; i < S.n; i++) if (isz[i] && memcmp(img[0][i], img[1][i], isz[i])) {
				/* the manager image holds pointers etc.; compare only defined outputs: skip ctx objects of GCM (same anyway) */
				char key[128]; snprintf(key, sizeof key, "%s:twin_mismatch:arg%d", e->name, i);
				vk_violation("C16", key, NULL, "%s and its legacy twin %s produce different bytes in output argument %d for identical valid inputs (len class %llu)", e->name, e->legacy, i, (unsigned long long)lens[li]);
			}
			(void)rets;
		}
	}
}

/* ================= FIPS latch (C13, variant VF) ================= */
#ifdef FIPS_MODE
extern uint32_t self_test_status;
extern int asm_check_self_tests_status(void);
extern void asm_set_self_tests_status(int);
/* harness shims replace _aes_self_tests / _sha_self_tests in self_tests.o (objcopy --redefine-sym) */
static int shim_aes_ret, shim_sha_ret; static int shim_entered_aes, shim_entered_sha;
static int latch_shim(int is_sha);
extern int _aes_self_tests(void); extern int _sha_self_tests(void);
int real_mode_self_tests;
int verif_aes_self_tests(void) { shim_entered_aes++; if (real_mode_self_tests) return _aes_self_tests(); return latch_shim(0); }
int verif_sha_self_tests(void) { shim_entered_sha++; if (real_mode_self_tests) return _sha_self_tests(); return latch_shim(1); }
static int fail_aes = 1, fail_sha = 1;   /* calibrated failure return values */

enum { L_NOTRUN, L_PASSED, L_FAILED };
static uint8_t before[NOBJ][4096];

/* one call of entry e with valid arguments; returns ret; *changed = some output object changed */
static int fips_var;       /* 0 = default arguments; k > 0 = the k-th in-domain alternative value of a scalar argument (flags, lengths, tag length, ...) */
static int fips_nvariants(const struct ent *e) { int n = 1; build_spec(e); for (int i = 0; i < S.n; i++) for (int k = 0; k < S.nsv[i]; k++) if (S.sv[i][k].validity == V_OK) n++; return n; }
static int fips_call(const struct ent *e, int *changed, int same_keys, int *faulted)
{
	build_spec(e);
	uint64_t a[12];
	for (int i = 0; i < S.n; i++) a[i] = S.valid[i];
	if (fips_var > 0) { int n = 0; for (int i = 0; i < S.n; i++) for (int k = 0; k < S.nsv[i]; k++) if (S.sv[i][k].validity == V_OK && ++n == fips_var) a[i] = S.sv[i][k].v; }
	if (same_keys && e->cls == C_XTS) {
		uint8_t *k2 = (uint8_t *)(uintptr_t)S.valid[0], *k1 = (uint8_t *)(uintptr_t)S.valid[1]; size_t n = S.objsize[0];
		if (same_keys == 1) memcpy(k2, k1, n);
		else if (same_keys == 2) memcpy(k2, k1, n / 2);              /* keys (or schedules) share a prefix but differ */
		else memcpy(k2 + n / 2, k1 + n / 2, n - n / 2);              /* share a suffix but differ */
	}
	/* state preparation must not go through gated public code: prep_state uses internal symbols */
	uint32_t st = self_test_status;
	prep_state(e, a);
	self_test_status = st;
	for (int i = 0; i < S.n; i++) if (S.isptr[i] && S.is_out[i]) memcpy(before[i], (void *)(uintptr_t)S.valid[i], S.objsize[i] > 4096 ? 4096 : S.objsize[i]);
	for (int i = 0; i < S.n; i++) if (!S.isptr[i] && S.is32[i]) a[i] = A32(a[i]);
	uint64_t r = do_call(e->fn, e->name, a, S.n, faulted);
	*changed = 0;
	for (int i = 0; i < S.n; i++) if (S.isptr[i] && S.is_out[i] && memcmp(before[i], (void *)(uintptr_t)S.valid[i], S.objsize[i] > 4096 ? 4096 : S.objsize[i])) *changed = 1;
	return (int)r;
}
static int fips_check(const struct ent *e, int latch, int ret, int changed, int entered, int outcome_fail, const char *hist)
{
	char key[200]; int nv0 = vk_nviol;
	if (e->cls == C_SELFTEST) {
		int expect_fail = latch == L_FAILED || (latch == L_NOTRUN && outcome_fail);
		if ((ret != 0) != expect_fail) { snprintf(key, sizeof key, "isal_self_tests:verdict:%s", latch == L_FAILED ? "after_failure" : latch == L_PASSED ? "after_pass" : "first_run"); vk_violation("C13", key, NULL, "isal_self_tests returned %d in latch state %d (outcome_fail=%d) [%s]", ret, latch, outcome_fail, hist); }
		return vk_nviol - nv0;
	}
	if (!e->approved) {
		if (ret != ISAL_CRYPTO_ERR_FIPS_INVALID_ALGO || changed) { snprintf(key, sizeof key, "%s:non_approved_not_refused", e->name); vk_violation("C13", key, NULL, "non-approved entry %s returned %d%s in a FIPS build [%s]", e->name, ret, changed ? " and modified its outputs" : "", hist); }
		return vk_nviol - nv0;
	}
	int must_refuse = latch == L_FAILED || (latch == L_NOTRUN && outcome_fail);
	if (must_refuse) {
		if (ret != ISAL_CRYPTO_ERR_SELF_TEST) { snprintf(key, sizeof key, "%s:not_refused_after_failed_self_test", e->name); vk_violation("C13", key, NULL, "%s returned %d instead of ISAL_CRYPTO_ERR_SELF_TEST although the self-tests %s [%s]", e->name, ret, latch == L_FAILED ? "had failed" : "fail", hist); }
		else if (changed) { snprintf(key, sizeof key, "%s:output_touched_when_refused", e->name); vk_violation("C13", key, NULL, "%s returned the self-test error but modified an output object [%s]", e->name, hist); }
	} else {
		if (ret != 0) { snprintf(key, sizeof key, "%s:refused_after_pass", e->name); vk_violation("C13", key, NULL, "%s returned %d although the self-tests passed [%s]", e->name, ret, hist); }
	}
	if (latch == L_NOTRUN && entered != 1) { snprintf(key, sizeof key, "%s:self_tests_not_run_first", e->name); vk_violation("C13", key, NULL, "%s was the first call but the self-tests were entered %d times (expected exactly once before any work) [%s]", e->name, entered, hist); }
	if (latch != L_NOTRUN && entered != 0) { snprintf(key, sizeof key, "%s:self_tests_rerun", e->name); vk_violation("C13", key, NULL, "%s re-entered the self-tests (%d times) although the verdict was already latched (state %d) [%s]", e->name, entered, latch, hist); }
	return vk_nviol - nv0;
}
static void calibrate(void)
{
	/* what do the genuine self-test functions really return on failure?  Break a primitive underneath by
	 * re-pointing dispatch slots to a function of a different key size, run the real tests, restore. */
	void **s1 = vk_sym("_aes_cbc_enc_128_dispatched"), **s2 = vk_sym("_sha256_ctx_mgr_submit_dispatched");
	void *w1 = vk_sym("_aes_cbc_enc_256_x4"), *w2 = vk_sym("_sha1_ctx_mgr_submit_base");
	int ok_a = _aes_self_tests(), ok_s = _sha_self_tests();
	if (ok_a || ok_s) vk_note("genuine self tests do not pass on the unmodified library: aes=%d sha=%d", ok_a, ok_s);
	if (s1 && w1) { void *o = *s1; *s1 = w1; int r = _aes_self_tests(); *s1 = o; if (r) fail_aes = r; vk_note("calibration: genuine _aes_self_tests returns %d on failure", r); }
	if (s2 && w2) { void *o = *s2; *s2 = w2; int r = _sha_self_tests(); *s2 = o; if (r) fail_sha = r; vk_note("calibration: genuine _sha_self_tests returns %d on failure", r); }
}
/* ---- self-test sensitivity: a known-answer test that calls a primitive and gets a wrong answer from it must fail ----
 * Every dispatch slot of an approved algorithm is, one at a time, re-pointed to a saboteur that calls the really bound
 * function and then corrupts what it produced.  If the genuine class self-test (_aes_self_tests / _sha_self_tests) calls
 * the saboteur at all (counted), its verdict must be "failed", and isal_self_tests must latch FAILED: "once the
 * self-tests have failed" includes a failing known-answer test whose result is lost on the way to the verdict.  No list
 * of what the self-tests are supposed to cover is assumed: only primitives they actually call are judged. */
static void *sab_real; static int sab_calls;
typedef void *(*fn5)(void *, void *, const void *, uint32_t, int);
static void *sab_hash_submit(void *mgr, void *ctx, const void *buf, uint32_t len, int flags) { sab_calls++; return ((fn5)sab_real)(mgr, ctx, buf, len ? len - 1 : 0, flags); }
static void sab_cbc(void *in, void *iv, void *keys, uint8_t *out, uint64_t len) { sab_calls++; ((void (*)(void *, void *, void *, void *, uint64_t))sab_real)(in, iv, keys, out, len); if (len) { out[0] ^= 1; out[len - 1] ^= 0x80; } }
static void sab_xts(void *k2, void *k1, void *tw, uint64_t len, const void *in, uint8_t *out) { sab_calls++; ((void (*)(void *, void *, void *, uint64_t, const void *, void *))sab_real)(k2, k1, tw, len, in, out); if (len) { out[0] ^= 1; out[len - 1] ^= 0x80; } }
static void sab_gcm(void *key, void *ctx, uint8_t *out, const void *in, uint64_t len, void *iv, const void *aad, uint64_t aadl, uint8_t *tag, uint64_t tagl)
{ sab_calls++; ((void (*)(void *, void *, void *, const void *, uint64_t, void *, const void *, uint64_t, void *, uint64_t))sab_real)(key, ctx, out, in, len, iv, aad, aadl, tag, tagl); if (len) out[0] ^= 1; if (tagl) tag[0] ^= 1; }
static void sab_gcm_update(void *key, void *ctx, uint8_t *out, const void *in, uint64_t len) { sab_calls++; ((void (*)(void *, void *, void *, const void *, uint64_t))sab_real)(key, ctx, out, in, len); if (len) out[0] ^= 1; }
static void sab_gcm_finalize(void *key, void *ctx, uint8_t *tag, uint64_t tagl) { sab_calls++; ((void (*)(void *, void *, void *, uint64_t))sab_real)(key, ctx, tag, tagl); if (tagl) tag[0] ^= 1; }
static void sab_gcm_init(void *key, struct isal_gcm_context_data *ctx, void *iv, const void *aad, uint64_t aadl) { sab_calls++; ((void (*)(void *, void *, void *, const void *, uint64_t))sab_real)(key, ctx, iv, aad, aadl); ctx->aad_hash[0] ^= 1; ctx->orig_IV[15] ^= 2; }
static void sab_gcm_precomp(struct isal_gcm_key_data *kd) { sab_calls++; ((void (*)(void *))sab_real)(kd); kd->shifted_hkey_1[0] ^= 1; }
static void sab_keyexp(const void *key, uint8_t *enc, uint8_t *dec) { sab_calls++; ((void (*)(const void *, void *, void *))sab_real)(key, enc, dec); enc[16] ^= 1; enc[0] ^= 1; if (dec) { dec[16] ^= 1; dec[0] ^= 1; } }
static void sensitivity(void)
{
	static const struct { const char *pat; void *sab; int sha; } K[] = {
		{ "_sha1_ctx_mgr_submit", sab_hash_submit, 1 }, { "_sha256_ctx_mgr_submit", sab_hash_submit, 1 }, { "_sha512_ctx_mgr_submit", sab_hash_submit, 1 },
		{ "_aes_cbc_", sab_cbc, 0 }, { "_XTS_AES_", sab_xts, 0 }, { "_aes_gcm_precomp_", sab_gcm_precomp, 0 }, { "_aes_gcm_init_", sab_gcm_init, 0 },
		{ "_finalize", sab_gcm_finalize, 0 }, { "_update", sab_gcm_update, 0 }, { "_aes_gcm_enc_", sab_gcm, 0 }, { "_aes_gcm_dec_", sab_gcm, 0 }, { "_aes_keyexp_", sab_keyexp, 0 },
	};
	shim_aes_ret = shim_sha_ret = 0;
	if (_aes_self_tests() || _sha_self_tests()) return;    /* binds every slot the self-tests use; a failure here is reported by calibrate() */
	for (unsigned i = 0; i < vk_nsyms; i++) {
		const char *nme = vk_symtab[i].name; size_t l = strlen(nme);
		if (l <= 11 || strcmp(nme + l - 11, "_dispatched")) continue;
		if (!strncmp(nme, "_aes_keyexp_128_enc", 19)) continue;      /* two-argument variant */
		void *sab = NULL; int sha = 0;
		for (unsigned k = 0; k < sizeof K / sizeof *K && !sab; k++) {
			if (K[k].pat[0] == '_' && K[k].pat[1] != 'f' && K[k].pat[1] != 'u') { if (!strncmp(nme, K[k].pat, strlen(K[k].pat))) { sab = K[k].sab; sha = K[k].sha; } }
			else if (!strncmp(nme, "_aes_gcm_", 9) && strstr(nme, K[k].pat)) { sab = K[k].sab; sha = K[k].sha; }
		}
		if (!sab) continue;
		void **slot = vk_symtab[i].addr; void *orig = *slot;
		sab_real = orig; sab_calls = 0; *slot = sab;
		int r = sha ? _sha_self_tests() : _aes_self_tests();
		int called = sab_calls;
		/* and through the real latch: the verdict must be stored as a failure */
		int latched_ok = 1;
		if (called) {
			extern int real_mode_self_tests;     /* shims forward to the genuine functions */
			self_test_status = 2; real_mode_self_tests = 1;
			int rr = (int)vk_vcall_n(vk_sym("isal_self_tests"), "isal_self_tests", 0);
			real_mode_self_tests = 0;
			latched_ok = rr != 0 && self_test_status == 1;
		}
		*slot = orig; self_test_status = 2;
		vk_stat("transitions", 1); vk_stat("sabotaged_slots", 1);
		if (!called) { vk_stat("sabotaged_slots_not_used_by_self_tests", 1); continue; }
		vk_stat("sabotaged_slots_used_by_self_tests", 1);
		char slotname[96]; snprintf(slotname, sizeof slotname, "%.*s", (int)(l - 11), nme);
		if (r == 0) { char key[160]; snprintf(key, sizeof key, "%s:known_answer_failure_lost", sha ? "_sha_self_tests" : "_aes_self_tests"); vk_violation("C13", key, NULL, "%s called %s %d times, got corrupted results every time and still reported success: a failing known-answer test does not reach the verdict (first seen for %s)", sha ? "_sha_self_tests" : "_aes_self_tests", slotname, called, slotname); }
		else if (!latched_ok) { char key[160]; snprintf(key, sizeof key, "isal_self_tests:failure_not_latched"); vk_violation("C13", key, NULL, "with %s corrupted the class self-test fails (%d) but isal_self_tests did not return / latch the failure", slotname, r); }
	}
}
static void set_latch(int latch, int via)
{
	/* put the library in a latch state through the real code paths */
	self_test_status = 2;    /* NOT_DONE */
	shim_entered_aes = shim_entered_sha = 0;
	if (latch == L_PASSED) { shim_aes_ret = shim_sha_ret = 0; vk_vcall_n(vk_sym("isal_self_tests"), "isal_self_tests", 0); }
	else if (latch == L_FAILED) {
		if (via == 0) asm_set_self_tests_status(1);
		else { shim_aes_ret = via == 1 ? fail_aes : 0; shim_sha_ret = via == 2 ? fail_sha : 0; vk_vcall_n(vk_sym("isal_self_tests"), "isal_self_tests", 0); }
	}
	shim_entered_aes = shim_entered_sha = 0;
}
static void fips(void)
{
	calibrate();
	if (vk_shard == 0) sensitivity();
	long item = 0;
	/* outcomes: 0 pass, 1 AES fails, 2 SHA fails */
	for (int latch = 0; latch < 3; latch++) for (int via = 0; via < (latch == L_FAILED ? 3 : 1); via++)
	for (int o1 = 0; o1 < 3; o1++) for (int o2 = 0; o2 < 3; o2++) for (int e1 = 0; e1 < NE; e1++) {
		if (item++ % vk_nshards != vk_shard) continue;
		if (vk_deadline_hit()) { vk_stat("deadline_skipped", 1); continue; }
		for (int e2 = -1; e2 < NE; e2++) {
			/* e2 == -1: one-step history; else two steps. Quick tier: second step over a rotating subset */
			if (e2 >= 0 && !vk_thorough && (e2 + e1) % 6) continue;
			char hist[240];
			snprintf(hist, sizeof hist, "latch=%s%s outcomes=(%d,%d) calls=%s%s%s", latch == 0 ? "not_run" : latch == 1 ? "passed" : "failed", latch == 2 ? (via == 0 ? "(set_status)" : via == 1 ? "(aes)" : "(sha)") : "", o1, o2, E[e1].name, e2 >= 0 ? "," : "", e2 >= 0 ? E[e2].name : "");
			set_latch(latch, via);
			int model = latch, changed, faulted;
			/* step 1 */
			shim_aes_ret = o1 == 1 ? fail_aes : 0; shim_sha_ret = o1 == 2 ? fail_sha : 0;
			int ret = fips_call(&E[e1], &changed, 0, &faulted);
			vk_stat("transitions", 1);
			if (faulted) { char key[128]; snprintf(key, sizeof key, "%s:fault", E[e1].name); vk_violation("C13", key, NULL, "%s faulted in FIPS build [%s]", E[e1].name, hist); continue; }
			int entered = shim_entered_aes > shim_entered_sha ? shim_entered_aes : shim_entered_sha;
			int runs = (E[e1].approved && model == L_NOTRUN);
			if (fips_check(&E[e1], model, ret, changed, runs ? entered : (model == L_NOTRUN ? 1 : entered), o1 != 0, hist)) continue;   /* root cause reported; do not cascade */
			if (runs) model = o1 ? L_FAILED : L_PASSED;
			if (e2 < 0) { vk_stat("states", 1); continue; }
			/* step 2 */
			shim_entered_aes = shim_entered_sha = 0;
			shim_aes_ret = o2 == 1 ? fail_aes : 0; shim_sha_ret = o2 == 2 ? fail_sha : 0;
			ret = fips_call(&E[e2], &changed, 0, &faulted);
			vk_stat("transitions", 1);
			if (faulted) { char key[128]; snprintf(key, sizeof key, "%s:fault", E[e2].name); vk_violation("C13", key, NULL, "%s faulted in FIPS build [%s]", E[e2].name, hist); continue; }
			entered = shim_entered_aes > shim_entered_sha ? shim_entered_aes : shim_entered_sha;
			runs = (E[e2].approved && model == L_NOTRUN);
			fips_check(&E[e2], model, ret, changed, runs ? entered : (model == L_NOTRUN ? 1 : entered), o2 != 0, hist);
			vk_stat("states", 1);
			vk_distinct("histories", vk_hash(hist, strlen(hist), 21));
		}
	}
	/* every in-domain variant of the scalar arguments (flags FIRST/UPDATE/LAST, zero and odd lengths, AAD length 0, tag
	 * lengths 8/12, windows ...): a gate that is skipped on one parameter path */
	for (int latch = 0; latch < 3; latch++) for (int o1 = 0; o1 < 3; o1 += 2) for (int e1 = 0; e1 < NE; e1++) {
		if (item++ % vk_nshards != vk_shard) continue;
		int nv = fips_nvariants(&E[e1]);
		for (fips_var = 1; fips_var < nv; fips_var++) {
			char hist[240]; int changed, faulted;
			snprintf(hist, sizeof hist, "latch=%s outcome=%d call=%s argument-variant#%d", latch == 0 ? "not_run" : latch == 1 ? "passed" : "failed", o1, E[e1].name, fips_var);
			set_latch(latch, 0);
			shim_aes_ret = 0; shim_sha_ret = o1 == 2 ? fail_sha : 0;
			int ret = fips_call(&E[e1], &changed, 0, &faulted);
			vk_stat("transitions", 1); vk_stat("states", 1);
			if (faulted) { char key[128]; snprintf(key, sizeof key, "%s:fault", E[e1].name); vk_violation("C13", key, NULL, "%s faulted in FIPS build [%s]", E[e1].name, hist); continue; }
			int entered = shim_entered_aes > shim_entered_sha ? shim_entered_aes : shim_entered_sha;
			int runs = (E[e1].approved && latch == L_NOTRUN);
			fips_check(&E[e1], latch, ret, changed, runs ? entered : (latch == L_NOTRUN ? 1 : entered), o1 != 0, hist);
			vk_distinct("histories", vk_hash(hist, strlen(hist), 22));
		}
		fips_var = 0;
	}
	/* XTS key equality: every entry, every latch state */
	if (vk_shard == 0) for (int latch = 0; latch < 3; latch++) for (int e1 = 0; e1 < NE; e1++) if (E[e1].cls == C_XTS) {
		int changed, faulted; char hist[160];
		set_latch(latch, 0); shim_aes_ret = shim_sha_ret = 0;
		int ret = fips_call(&E[e1], &changed, 1, &faulted);
		snprintf(hist, sizeof hist, "latch=%d key1==key2 %s", latch, E[e1].name);
		vk_stat("transitions", 1);
		if (faulted || ret == 0 || changed) { char key[128]; snprintf(key, sizeof key, "%s:same_keys_accepted", E[e1].name); vk_violation("C13", key, NULL, "%s accepted a data key identical to the tweak key (ret %d%s) [%s]", E[e1].name, ret, changed ? ", output written" : "", hist); }
		/* keys that merely share a prefix / suffix are different keys: in the passed state the call must succeed */
		if (latch == L_PASSED) for (int part = 2; part <= 3; part++) {
			set_latch(L_PASSED, 0); shim_aes_ret = shim_sha_ret = 0;
			ret = fips_call(&E[e1], &changed, part, &faulted);
			vk_stat("transitions", 1);
			if (faulted || ret != 0) { char key[128]; snprintf(key, sizeof key, "%s:different_keys_refused", E[e1].name); vk_violation("C13", key, NULL, "%s returned %d for two different keys that share their %s half", E[e1].name, ret, part == 2 ? "first" : "second"); }
		}
	}
	self_test_status = 2;
}
#endif


/* ================= interleaving exploration (C17 latch, C18 first-call races) ================= */
#ifndef VERIF_VARIANT_P
typedef uint64_t (*fn10)(uint64_t, uint64_t, uint64_t, uint64_t, uint64_t, uint64_t, uint64_t, uint64_t, uint64_t, uint64_t);
static uint64_t plain_call(void *fn, const uint64_t *a) { return ((fn10)fn)(a[0], a[1], a[2], a[3], a[4], a[5], a[6], a[7], a[8], a[9]); }
enum { EV_RET = VS_EV_USER, EV_RET_API, EV_AES_ENTER, EV_AES_EXIT, EV_SHA_ENTER, EV_SHA_EXIT, EV_CALL };
static void add_mutable(struct vs_config *c, void *p, unsigned sz) { if (p && c->naddrs < 80) { c->addrs[c->naddrs] = (uintptr_t)p; c->addr_size[c->naddrs++] = sz; } }
static void emit_sched_violation(const char *prop_, const char *key, const char *msg, const int8_t *sched, int len, const char *what)
{
	char rj[1400]; int o = snprintf(rj, sizeof rj, "{\"what\":\"%s\",\"schedule\":[", what);
	for (int i = 0; i < len && o < 1300; i++) o += snprintf(rj + o, sizeof rj - o, "%s%d", i ? "," : "", sched[i]);
	snprintf(rj + o, sizeof rj - o, "]}");
	vk_violation(prop_, key, rj, "%s [%s; schedule of %d thread choices in the replay artefact]", msg, what, len);
}
#endif

#if defined(FIPS_MODE) && !defined(VERIF_VARIANT_P)
static int latch_outcome;
static int latch_mode_on;
static int latch_shim(int is_sha)
{
	if (!latch_mode_on) return is_sha ? shim_sha_ret : shim_aes_ret;
	vs_event(is_sha ? EV_SHA_ENTER : EV_AES_ENTER, 0);
	vs_point(is_sha ? "sha_self_tests_running" : "aes_self_tests_running", 0);      /* others may run while the tests run */
	int r = is_sha ? (latch_outcome == 2 ? fail_sha : 0) : (latch_outcome == 1 ? fail_aes : 0);
	vs_event(is_sha ? EV_SHA_EXIT : EV_AES_EXIT, r);
	return r;
}      /* 0 pass, 1 AES fails, 2 SHA fails */
static ISAL_SHA256_HASH_CTX_MGR latch_mgr[4] __attribute__((aligned(64)));
static void **slot_sha256_init;
static void body_selftests(int tid, void *arg) { (void)arg; (void)tid; int r = isal_self_tests(); vs_event(EV_RET, r); r = isal_self_tests(); vs_event(EV_RET, r); }
static void body_api(int tid, void *arg) { (void)arg; vs_event(EV_CALL, 0); int r = isal_sha256_ctx_mgr_init(&latch_mgr[tid]); vs_event(EV_RET_API, r); r = isal_self_tests(); vs_event(EV_RET, r); }
static void latch_reset(void) { self_test_status = 2; shim_entered_aes = shim_entered_sha = 0; }
static void latch_unstick(void) { self_test_status = 1; }
static uint64_t latch_extra(void) { uint64_t k[3] = { self_test_status, (uint64_t)shim_entered_aes, (uint64_t)shim_entered_sha }; return vk_hash(k, sizeof k, 5); }
static int latch_check(char *msg, size_t n)
{
	const struct vs_event *ev = vs_events(); int ne = vs_nevents();
	int aes = 0, sha = 0, finished = -1, verdict = latch_outcome ? ISAL_CRYPTO_ERR_SELF_TEST : 0;
	for (int i = 0; i < ne; i++) {
		if (ev[i].kind == EV_AES_ENTER) aes++;
		if (ev[i].kind == EV_SHA_ENTER) sha++;
		if (ev[i].kind == EV_SHA_EXIT && finished < 0) finished = i;
	}
	if (aes != 1 || sha != 1) { snprintf(msg, n, "self-tests executed %d (AES) / %d (SHA) times instead of exactly once", aes, sha); return 1; }
	for (int i = 0; i < ne; i++) {
		if ((ev[i].kind == EV_RET || ev[i].kind == EV_RET_API) && i < finished) { snprintf(msg, n, "thread %d's call returned %lld before the self-tests had finished", ev[i].tid, (long long)ev[i].v); return 1; }
		if ((ev[i].kind == EV_RET || ev[i].kind == EV_RET_API) && ev[i].v != verdict) { snprintf(msg, n, "thread %d observed %lld, the verdict of the self-tests is %d", ev[i].tid, (long long)ev[i].v, verdict); return 1; }
		if (ev[i].kind == VS_EV_ACCESS && slot_sha256_init && (uintptr_t)ev[i].v == (uintptr_t)slot_sha256_init && i < finished) { snprintf(msg, n, "thread %d started cryptographic work (entered the manager-init primitive) before the self-tests had finished", ev[i].tid); return 1; }
	}
	return 0;
}
static void latch(void)
{
	slot_sha256_init = vk_sym("_sha256_ctx_mgr_init_dispatched");
	latch_mode_on = 1;
	long item = 0;
	const char *lv; int maxthr = 4;
	if (vk_opt("latch-max-threads", &lv)) maxthr = atoi(lv);
	for (int nthr = 1; nthr <= maxthr; nthr++) for (int oc = 0; oc < 3; oc++) for (int mix = 0; mix < 2; mix++) {
		if (nthr == 1 && mix) continue;
		if (item++ % vk_nshards != vk_shard) continue;
		struct vs_config c; memset(&c, 0, sizeof c);
		c.nthreads = nthr;
		for (int t = 0; t < nthr; t++) c.body[t] = (mix && t == nthr - 1) ? body_api : body_selftests;
		add_mutable(&c, &self_test_status, 4);
		add_mutable(&c, slot_sha256_init, 8);
		c.reset = latch_reset; c.check = latch_check; c.state_extra = latch_extra; c.unstick = latch_unstick;
		c.preempt_bound = nthr == 4 ? (vk_thorough ? 6 : 2) : -1;
		if (nthr == 4 && vk_opt("latch-bound4", &lv)) c.preempt_bound = atoi(lv);
		c.max_points = 300; c.max_executions = vk_thorough ? 4000000 : 400000;
		latch_outcome = oc;
		fail_aes = 1; fail_sha = -1;
		struct vs_stats st; char msg[400]; int8_t sched[VS_MAXPTS]; int sl = 0;
		char what[96]; snprintf(what, sizeof what, "threads=%d outcome=%s bodies=%s", nthr, oc == 0 ? "pass" : oc == 1 ? "aes_fails" : "sha_fails", mix ? "selftests+api" : "selftests");
		int v = vs_explore(&c, &st, msg, sizeof msg, sched, &sl);
		vk_stat("schedules", st.executions); vk_stat("states", st.states); vk_stat("transitions", st.transitions); vk_stat("scheduling_points", st.points);
		vk_stat("pruned_revisits", st.pruned); vk_stat("preemption_bounded_out", st.bounded_out); vk_stat_max("max_points_in_one_execution", st.max_points_seen);
		if (st.capped) vk_stat("execution_cap_hits", 1);
		if (st.nondeterministic) vk_violation("C17", "harness:nondeterministic_replay", NULL, "a failing schedule did not fail again when replayed (%s)", what);
		vk_note("latch %s: %llu schedules, %llu states, %llu transitions%s", what, (unsigned long long)st.executions, (unsigned long long)st.states, (unsigned long long)st.transitions, c.preempt_bound >= 0 ? " (preemption-bounded)" : " (unbounded preemptions, exhaustive)");
		vk_distinct("configs", vk_hash(what, strlen(what), 1));
		if (v) { char key[160]; snprintf(key, sizeof key, "latch:%s", strstr(msg, "times instead") ? "not_exactly_once" : strstr(msg, "before the self-tests") ? "early_return" : strstr(msg, "verdict") ? "verdict_mismatch" : strstr(msg, "progress") ? "deadlock" : "other"); emit_sched_violation(!strcmp(prop, "C13") ? "C13" : "C17", key, msg, sched, sl, what); }
	}
	vk_faults_install();
	latch_mode_on = 0;
}
#endif

#ifndef VERIF_VARIANT_P
/* ---- C18(b): simultaneous first calls of a dispatched entry point on per-thread objects ---- */
static struct spec RS[4]; static uint64_t RA[4][12]; static const struct ent *race_ent;
static uint8_t race_expect[4][NOBJ][512]; static uint64_t race_expect_ret[4];
static void **all_slots[80]; static void *all_mbinit[80]; static void *seq_bind[80]; static int nslots;
static int race_n;
static void race_prepare(int tid)
{
	so = soset[tid];
	build_spec(race_ent);
	memcpy(&RS[tid], &S, sizeof S);
	for (int i = 0; i < S.n; i++) RA[tid][i] = (!S.isptr[i] && S.is32[i]) ? (uint64_t)(uint32_t)S.valid[i] : S.valid[i];
	for (int i = S.n; i < 12; i++) RA[tid][i] = 0;
	prep_state(race_ent, RA[tid]);
	so = soset[0];
}
static void race_body(int tid, void *arg) { (void)arg; uint64_t r = plain_call(race_ent->fn, RA[tid]); vs_event(EV_RET, (int64_t)r); }
static void race_reset(void)
{
	for (int t = 0; t < race_n; t++) race_prepare(t);
	for (int i = 0; i < nslots; i++) *all_slots[i] = all_mbinit[i];     /* every dispatched entry is a first call again */
}
static int race_is_int(const struct ent *e) { return e->cls != C_MHINIT || 1; }
static int race_check(char *msg, size_t n)
{
	const struct vs_event *ev = vs_events(); int ne = vs_nevents();
	for (int i = 0; i < nslots; i++) if (*all_slots[i] != all_mbinit[i] && *all_slots[i] != seq_bind[i]) { snprintf(msg, n, "dispatch slot #%d ended at %p, the sequential binding is %p", i, *all_slots[i], seq_bind[i]); return 1; }
	for (int i = 0; i + 1 < ne; i++) if (ev[i].kind == VS_EV_ACCESS && ev[i + 1].kind == VS_EV_ACCESS_VAL) {
		for (int k = 0; k < nslots; k++) if ((uintptr_t)ev[i].v == (uintptr_t)all_slots[k]) {
			void *val = (void *)(uintptr_t)ev[i + 1].v;
			if (val != all_mbinit[k] && val != seq_bind[k]) { snprintf(msg, n, "thread %d observed %p in dispatch slot #%d: neither the resolver stub nor the final target", ev[i].tid, val, k); return 1; }
		}
	}
	for (int t = 0; t < race_n; t++) {
		int got = 0; uint64_t r = 0;
		for (int i = 0; i < ne; i++) if (ev[i].kind == EV_RET && ev[i].tid == t) { got = 1; r = (uint64_t)ev[i].v; }
		if (!got) { snprintf(msg, n, "thread %d did not return", t); return 1; }
		if (race_is_int(race_ent) && (int)r != (int)race_expect_ret[t]) { snprintf(msg, n, "thread %d's call returned %d, sequentially it returns %d", t, (int)r, (int)race_expect_ret[t]); return 1; }
		for (int i = 0; i < RS[t].n; i++) if (RS[t].isptr[i] && RS[t].is_out[i]) {
			size_t sz = RS[t].objsize[i] > 512 ? 512 : RS[t].objsize[i];
			/* managers and contexts hold addresses of per-thread objects, identical between runs because objects are at fixed places */
			if (memcmp(race_expect[t][i], (void *)(uintptr_t)RS[t].valid[i], sz)) { snprintf(msg, n, "thread %d: output argument %d differs from the sequential result", t, i); return 1; }
		}
	}
	return 0;
}
static uint64_t race_extra(void) { uint64_t h = 9; for (int i = 0; i < nslots; i++) { void *v = *all_slots[i]; h = vk_hash(&v, sizeof v, h); } return h; }
static void race(void)
{
	for (unsigned i = 0; i < vk_nsyms && nslots < 80; i++) {
		const char *nme = vk_symtab[i].name; size_t l = strlen(nme);
		if (l > 11 && !strcmp(nme + l - 11, "_dispatched")) {
			char b[128]; snprintf(b, sizeof b, "%.*s_mbinit", (int)(l - 11), nme);
			void *mb = vk_sym(b); if (!mb) continue;
			all_slots[nslots] = vk_symtab[i].addr; all_mbinit[nslots] = mb; nslots++;
		}
	}
	vk_stat_max("dispatch_slots", nslots);
	long item = 0;
	for (int ei = 0; ei < NE; ei++) {
		const struct ent *e = &E[ei];
		if (e->cls == C_SELFTEST) continue;
		if (item++ % vk_nshards != vk_shard) continue;
		if (vk_only && !strstr(e->name, vk_only)) continue;
		if (vk_deadline_hit()) { vk_stat("deadline_skipped", 1); continue; }
		race_ent = e;
		for (race_n = 2; race_n <= (vk_thorough ? 4 : 3); race_n++) {
			/* sequential reference: each thread's call alone, from re-armed slots */
			race_reset();
			for (int t = 0; t < race_n; t++) {
				race_expect_ret[t] = plain_call(e->fn, RA[t]);
				for (int i = 0; i < RS[t].n; i++) if (RS[t].isptr[i] && RS[t].is_out[i]) memcpy(race_expect[t][i], (void *)(uintptr_t)RS[t].valid[i], RS[t].objsize[i] > 512 ? 512 : RS[t].objsize[i]);
			}
			int touched = 0;
			for (int i = 0; i < nslots; i++) { seq_bind[i] = *all_slots[i]; if (seq_bind[i] != all_mbinit[i]) touched++; }
			if (!touched) { vk_stat("entries_without_dispatch", 1); break; }
			struct vs_config c; memset(&c, 0, sizeof c);
			c.nthreads = race_n;
			for (int t = 0; t < race_n; t++) c.body[t] = race_body;
			for (int i = 0; i < nslots; i++) if (seq_bind[i] != all_mbinit[i]) add_mutable(&c, all_slots[i], 8);
			c.reset = race_reset; c.check = race_check; c.state_extra = race_extra;
			c.preempt_bound = -1; c.max_points = 400; c.max_executions = vk_thorough ? 200000 : 20000;
			struct vs_stats st; char msg[400]; int8_t sched[VS_MAXPTS]; int sl = 0; char what[128];
			snprintf(what, sizeof what, "%s threads=%d slots=%d", e->name, race_n, touched);
			int v = vs_explore(&c, &st, msg, sizeof msg, sched, &sl);
			vk_stat("schedules", st.executions); vk_stat("states", st.states); vk_stat("transitions", st.transitions); vk_stat("scheduling_points", st.points);
			vk_stat("pruned_revisits", st.pruned); vk_stat_max("max_points_in_one_execution", st.max_points_seen);
			if (st.capped) vk_stat("execution_cap_hits", 1);
			vk_distinct("raced_entry_points", vk_hash(e->name, strlen(e->name), race_n));
			if (st.nondeterministic) vk_violation("C18", "harness:nondeterministic_replay", NULL, "a failing schedule did not fail again when replayed (%s)", what);
			if (v) { char key[160]; snprintf(key, sizeof key, "%s:first_call_race", e->name); emit_sched_violation("C18", key, msg, sched, sl, what); }
		}
	}
	for (int i = 0; i < nslots; i++) *all_slots[i] = all_mbinit[i];
	vk_faults_install();
}
#endif

int main(int argc, char **argv)
{
	const char *v;
	vk_init(argc, argv);
	if (vk_opt("prop", &v)) prop = v;
	if (vk_opt("mode", &v)) mode = v;
	if (!strcmp(prop, "C19")) vk_call_mode = VC_POISON_REGS;
	if (ref_run_kats(0)) { fprintf(stderr, "reference KATs failed\n"); return 2; }
	if (vk_want_wtrap) vk_wtrap_enable();
	static char nm[NOBJ][8];
	for (int i = 0; i < NOBJ; i++) {
		snprintf(nm[i], sizeof nm[i], "arg%d", i);
		for (int t = 0; t < 4; t++) vk_slot_init(&soset[t][i], nm[i], 1 << 16, 0);
		poison[i] = mmap((void *)(0x300000000000ULL + (uint64_t)i * 0x100000), 65536, PROT_NONE, MAP_PRIVATE | MAP_ANONYMOUS | MAP_FIXED_NOREPLACE, -1, 0);
		if (poison[i] == MAP_FAILED) { perror("mmap poison"); return 2; }
		poison[i] += 4096;    /* 64-byte aligned, well inside the inaccessible region */
	}
	vk_fill(pool, sizeof pool, 0xe4); vk_fill(rawkey, sizeof rawkey, 0xe5);
	{
		ref_aes_key k; void *f;
		memset(&kd128, 0, sizeof kd128); memset(&kd256, 0, sizeof kd256);
		ref_aes_expand(&k, rawkey, 128); memcpy(kd128.expanded_keys, k.rk, 176); if ((f = vk_sym("_aes_gcm_precomp_128"))) VCALLN(f, "_aes_gcm_precomp_128", AP(&kd128));
		ref_aes_expand(&k, rawkey, 256); memcpy(kd256.expanded_keys, k.rk, 240); if ((f = vk_sym("_aes_gcm_precomp_256"))) VCALLN(f, "_aes_gcm_precomp_256", AP(&kd256));
	}
	build_catalog();
	vk_stat_max("catalog_entries", NE);
	{ /* every exported isal_ symbol must be in the catalog */
		for (unsigned i = 0; i < vk_nsyms; i++) if (!strncmp(vk_symtab[i].name, "isal_", 5) && vk_symtab[i].type == 'T') {
			int k; for (k = 0; k < NE && strcmp(E[k].name, vk_symtab[i].name); k++) ;
			if (k == NE) { vk_note("exported entry point %s has no catalog entry (uncovered)", vk_symtab[i].name); vk_stat("uncovered_entry_points", 1); }
		}
	}
	if (!strcmp(mode, "lattice")) {
		for (int i = 0; i < NE; i++) { if (i % vk_nshards != vk_shard) continue; if (vk_only && !strstr(E[i].name, vk_only)) continue; lattice_entry(&E[i]); if (E[i].cls == C_XTS) xts_maxlen_case(&E[i]); }
		if (vk_shard == 0) twins();
		vk_sample("isal_aes_gcm_enc_128: null_mask=0x44 (in, aad NULL) tag_len=15 -> must fail, remaining 5 pointers aimed at PROT_NONE pages; isal_sha256_ctx_mgr_submit flags=0x10 -> must fail; isal_aes_xts_dec_256 len=16777217 -> must fail");
	}
#ifndef VERIF_VARIANT_P
	else if (!strcmp(mode, "race")) {
		race();
		vk_sample("isal_aes_gcm_pre_128 called for the first time by 2 threads on own objects: all interleavings of the accesses to _aes_keyexp_128_dispatched and _aes_gcm_precomp_128_dispatched (load by the stub, store by the resolver, reload), results compared with the sequential results");
	}
#endif
#ifdef FIPS_MODE
	else if (!strcmp(mode, "latch")) {
		latch();
		vk_sample("3 threads x {isal_self_tests(); isal_self_tests();}, SHA self-test fails: every interleaving of the accesses to self_test_status (load, lock cmpxchg, spin loads, publishing store) and of the running self-tests; oracle: tests entered once, nobody returns before they finish, all see ISAL_CRYPTO_ERR_SELF_TEST, no thread spins forever");
	}
	else if (!strcmp(mode, "fips")) {
		fips();
		vk_sample("latch=not_run outcomes=(sha fails,pass) calls=isal_aes_cbc_enc_128,isal_sha256_ctx_mgr_init: first call must enter the self-tests once, return ISAL_CRYPTO_ERR_SELF_TEST and leave out untouched; second call must still be refused");
	}
#endif
	vk_finish();
	return 0;
}
